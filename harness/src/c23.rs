//! C23 — library evaluator (`jq::eval`) vs the CLI's generic evaluator
//! (`eval_generic::eval_with_cursor`) on generated (program, input) pairs.
//!
//! Request: `C23 ev <program hex> <input JSON hex>`. Answer: the canonical run line
//! `v1;v2;…;END` | `…;ERR:<payload>` | `…;BREAK` | `…;HALT:n` when both evaluators agree,
//! `EVALS-DISAGREE full=<line> generic=<line>` when they do not, `PARSE-ERROR` when the program
//! does not parse. Values are compact JSON whose numbers are `i<decimal>` (exact integers, and
//! integral doubles up to 2^53 which print identically) or `f<16 hex digits>` (IEEE bits), with
//! `~<literal>` appended when the value still carries its source spelling.
use crate::rng::Rng;
use crate::util::*;
use crate::Tier;
use succinctly::jq::eval_generic::{self, GenericResult};
use succinctly::jq::{self, Control, EvalError, JqSemantics, NumberRepr, OwnedValue, QueryResult};
use succinctly::json::JsonIndex;

pub fn tables() -> Vec<(&'static str, String)> {
    vec![]
}

// ---------------------------------------------------------------- canonical printing

fn canon_f(f: f64, out: &mut String) {
    use std::fmt::Write;
    if f.is_nan() {
        out.push_str("nan");
    } else if f == 0.0 && f.is_sign_negative() {
        out.push_str("-0");
    } else if f.is_finite() && f.fract() == 0.0 && f.abs() <= 9007199254740992.0 {
        let _ = write!(out, "i{}", f as i64);
    } else {
        let _ = write!(out, "f{:016x}", f.to_bits());
    }
}

fn canon_repr(r: &NumberRepr, out: &mut String) {
    use std::fmt::Write;
    match r {
        NumberRepr::Int(i) => {
            let _ = write!(out, "i{i}");
        }
        NumberRepr::Float(f) => canon_f(*f, out),
    }
}

/// A number that still carries its source spelling: the spelling is part of the answer only when it
/// differs from what the plain value prints as (`to_json` of the literal-free number).
fn canon_literal(r: &NumberRepr, lit: &str, out: &mut String) {
    let plain = match r {
        NumberRepr::Int(i) => OwnedValue::Int(*i),
        NumberRepr::Float(f) => OwnedValue::Float(*f),
    };
    let mut base = String::new();
    canon_repr(r, &mut base);
    if plain.to_json() == lit {
        out.push_str(&base);
    } else if lit == "-0" && base == "i0" {
        out.push_str("-0");
    } else {
        out.push_str(&base);
        out.push('~');
        out.push_str(lit);
    }
}

pub fn canon_str(s: &str, out: &mut String) {
    out.push('"');
    let _ = succinctly::jq::escape::write_json_body_jq(out, s);
    out.push('"');
}

pub fn canon(v: &OwnedValue, out: &mut String) {
    use std::fmt::Write;
    match v {
        OwnedValue::Null => out.push_str("null"),
        OwnedValue::Bool(b) => out.push_str(if *b { "true" } else { "false" }),
        OwnedValue::Int(i) => {
            let _ = write!(out, "i{i}");
        }
        OwnedValue::Float(f) => canon_f(*f, out),
        OwnedValue::NumberLiteral(r, lit) => canon_literal(r, lit, out),
        OwnedValue::String(s) => canon_str(s, out),
        OwnedValue::Array(xs) => {
            out.push('[');
            for (i, x) in xs.iter().enumerate() {
                if i > 0 {
                    out.push(',');
                }
                canon(x, out);
            }
            out.push(']');
        }
        OwnedValue::Object(m) => {
            out.push('{');
            for (i, (k, x)) in m.iter().enumerate() {
                if i > 0 {
                    out.push(',');
                }
                canon_str(k, out);
                out.push(':');
                canon(x, out);
            }
            out.push('}');
        }
    }
}

pub enum Term {
    End,
    Err(EvalError),
    Break,
    Halt(i32),
}

fn term_of(c: Control) -> Term {
    match c {
        Control::Error(e) => Term::Err(e),
        Control::Break(_) => Term::Break,
        Control::Halt(n) => Term::Halt(n),
    }
}

pub fn run_line(vals: &[OwnedValue], t: Term) -> String {
    let mut s = String::new();
    for v in vals {
        canon(v, &mut s);
        s.push(';');
    }
    match t {
        Term::End => s.push_str("END"),
        Term::Err(e) => {
            s.push_str("ERR:");
            canon(&e.payload(), &mut s);
        }
        Term::Break => s.push_str("BREAK"),
        Term::Halt(n) => s.push_str(&format!("HALT:{n}")),
    }
    s
}

pub fn run_full(expr: &jq::Expr, json: &[u8]) -> String {
    let index = JsonIndex::build(json);
    let cursor = index.root(json);
    let r: QueryResult<Vec<u64>> = jq::eval::<Vec<u64>, JqSemantics>(expr, cursor);
    match r {
        QueryResult::Error(e) => run_line(&[], Term::Err(e)),
        QueryResult::Break(_) => run_line(&[], Term::Break),
        QueryResult::Halt(n) => run_line(&[], Term::Halt(n)),
        QueryResult::Partial(vs, c) => run_line(&vs, term_of(c)),
        other => run_line(&other.collect_owned(), Term::End),
    }
}

pub fn run_generic(expr: &jq::Expr, json: &[u8]) -> String {
    let index = JsonIndex::build(json);
    let cursor = index.root(json);
    let r = eval_generic::eval_with_cursor(expr, cursor);
    match r {
        GenericResult::Error(e) => run_line(&[], Term::Err(e)),
        GenericResult::Break(_) => run_line(&[], Term::Break),
        GenericResult::Halt(n) => run_line(&[], Term::Halt(n)),
        GenericResult::Partial(vs, c) => run_line(&vs, term_of(c)),
        // the CLI's own materialisation of a lazy `map` chain (jq_runner::evaluate_input)
        GenericResult::LazySeq(seq) => match seq.materialize_atomic() {
            Ok(v) => run_line(&[v], Term::End),
            Err(c) => run_line(&[], term_of(c)),
        },
        other => run_line(&other.collect_owned(), Term::End),
    }
}

/// The input with duplicate object keys collapsed, as the generic evaluator's `.` prints it
/// (spelling of numbers preserved); `None` if that is not available.
pub fn collapse_input(json: &[u8]) -> Option<String> {
    fn lit(v: &OwnedValue, out: &mut String) {
        match v {
            OwnedValue::NumberLiteral(_, l) => out.push_str(l),
            OwnedValue::Array(xs) => {
                out.push('[');
                for (i, x) in xs.iter().enumerate() {
                    if i > 0 {
                        out.push(',');
                    }
                    lit(x, out);
                }
                out.push(']');
            }
            OwnedValue::Object(m) => {
                out.push('{');
                for (i, (k, x)) in m.iter().enumerate() {
                    if i > 0 {
                        out.push(',');
                    }
                    canon_str(k, out);
                    out.push(':');
                    lit(x, out);
                }
                out.push('}');
            }
            other => out.push_str(&other.to_json()),
        }
    }
    let index = JsonIndex::build(json);
    let cursor = index.root(json);
    let r = eval_generic::eval_with_cursor(&jq::Expr::Identity, cursor);
    let vs = r.collect_owned();
    let v = vs.first()?;
    let mut s = String::new();
    lit(v, &mut s);
    Some(s)
}

pub fn exec(a: &[&str]) -> String {
    match a[0] {
        "ev" => {
            let prog = String::from_utf8(parse_bytes(a[1])).expect("utf8 program");
            let input = parse_bytes(a[2]);
            let Ok(expr) = jq::parse(&prog) else {
                return "PARSE-ERROR".into();
            };
            let full = std::panic::catch_unwind(|| run_full(&expr, &input)).unwrap_or_else(|_| "PANIC".into());
            let gener = std::panic::catch_unwind(|| run_generic(&expr, &input)).unwrap_or_else(|_| "PANIC".into());
            if full == gener {
                full
            } else {
                // class of the disagreement: does it vanish once the input's duplicate object keys
                // are collapsed (first position, last value – the generic evaluator's own view)?
                let class = match collapse_input(&input) {
                    Some(collapsed) if collapsed.as_bytes() != &input[..] => {
                        let f2 = std::panic::catch_unwind(|| run_full(&expr, collapsed.as_bytes())).unwrap_or_else(|_| "PANIC".into());
                        let g2 = std::panic::catch_unwind(|| run_generic(&expr, collapsed.as_bytes())).unwrap_or_else(|_| "PANIC".into());
                        if f2 == g2 && g2 == gener {
                            "dupkeys"
                        } else {
                            "other"
                        }
                    }
                    _ => "other",
                };
                format!("EVALS-DISAGREE class={class} full={full} generic={gener}")
            }
        }
        _ => "BAD-OP".into(),
    }
}

// ---------------------------------------------------------------- input generator

pub const EDGE_NUMS: &[&str] = &[
    "0", "-0", "1", "-1", "2", "3", "7", "10", "0.5", "-2.5", "1.0", "1.50", "100", "1e2", "1E3", "3.14159",
    "9007199254740991", "9007199254740992", "9007199254740993", "-9007199254740993", "9223372036854775807",
    "9223372036854775808", "-9223372036854775808", "-9223372036854775809", "18446744073709551616",
    "123456789012345678901234567890", "1e308", "-1e308", "1.7976931348623157e308", "5e-324", "1e-7", "0.1", "0.2",
    "1e17", "1e19", "2.2250738585072014e-308", "4.35", "0.30000000000000004",
];

const STRS: &[&str] = &[
    "", "a", "b", "abc", "hello world", "a,b,c", "A-B", "é", "日本語", "naïve café", "😀", "x\\ty", "q\\\"uote", "line\\nbreak",
    "aaa", "abab", " pad ", "12", "1.5", "null", "true", "[1,2]", "{\\\"k\\\":1}", "%41", "a b&c/d?e=f", "<tag attr='v'>", "aGVsbG8=",
    "\\u0000", "\\u007f", "\\ud83d\\ude00", "\\u00e9",
];

const KEYS: &[&str] = &["a", "b", "c", "n", "s", "t", "m", "k", "x", "y", "key", "value", "é", "a b", ""];

fn gen_num(r: &mut Rng) -> String {
    match r.below(10) {
        0..=3 => r.below(12).to_string(),
        4 => format!("-{}", r.below(20)),
        5 => format!("{}.{}", r.below(100), r.below(100)),
        _ => r.pick(EDGE_NUMS).to_string(),
    }
}

fn gen_str_lit(r: &mut Rng) -> String {
    format!("\"{}\"", r.pick(STRS))
}

pub fn gen_json(r: &mut Rng, depth: u32) -> String {
    let k = if depth == 0 { r.below(5) } else { r.below(8) };
    match k {
        0 => gen_num(r),
        1 => gen_str_lit(r),
        2 => (*r.pick(&["null", "true", "false"])).to_string(),
        3 | 4 => gen_num(r),
        5 | 6 => {
            let n = r.below(5);
            let xs: Vec<String> = (0..n).map(|_| gen_json(r, depth - 1)).collect();
            format!("[{}]", xs.join(","))
        }
        _ => gen_obj(r, depth - 1),
    }
}

fn gen_obj(r: &mut Rng, depth: u32) -> String {
    let n = r.below(5);
    let mut fs = Vec::new();
    for _ in 0..n {
        let k = r.pick(KEYS);
        fs.push(format!("\"{}\":{}", k, gen_json(r, depth)));
    }
    // duplicate-key injection
    if n > 0 && r.chance(1, 4) {
        let k = r.pick(KEYS);
        fs.push(format!("\"{}\":{}", k, gen_json(r, depth)));
        fs.insert(0, format!("\"{}\":{}", k, gen_json(r, depth)));
    }
    format!("{{{}}}", fs.join(","))
}

/// Order-sensitive programs over an array (`.`): every one depends on jq's total order of its elements.
pub const ORDER_PROGS: &[&str] = &[
    "sort", "reverse | sort", "sort_by(.)", "unique", "unique_by(.)", "min", "max", "min_by(.), max_by(.)", "group_by(.)",
    "[.[0] < .[1], .[1] < .[0], .[0] > .[1], .[1] > .[0], .[0] <= .[1], .[0] >= .[1]]",
    "[.[] as $a | .[] as $b | $a < $b]", "[.[] as $a | .[] as $b | $a >= $b]", "sort == (reverse | sort)", "map([.]) | sort | map(.[0])",
    "[limit(3; sort[])]", "sort | first, last", "(sort | .[0]) == min", "[.[] | {v: .}] | sort_by(.v) | map(.v)", "map({w: .}) | max",
];

/// Arrays of 2–6 objects over ONE key set (2–4 keys), each object with its own insertion order of the
/// keys, values chosen so that pairs differ at two or more keys in opposite directions; sometimes
/// nested (objects inside the values, or the objects wrapped in arrays). The comparison of such
/// objects depends on jq's rule "values are compared in sorted-key order", not on insertion order.
pub const FAMILY_FIXED: &str = r#"[{"b":1,"a":2},{"a":1,"b":2}]"#;

pub fn gen_family(r: &mut Rng) -> String {
    let pool = ["b", "a", "c", "é", "A", "ab", "k", "z"];
    let nk = r.range(2, 4) as usize;
    let mut keys: Vec<&str> = Vec::new();
    while keys.len() < nk {
        let k = *r.pick(&pool);
        if !keys.contains(&k) {
            keys.push(k);
        }
    }
    let signs: Vec<i64> = (0..nk).map(|i| if (i + r.below(2) as usize) % 2 == 0 { 1 } else { -1 }).collect();
    let n = r.range(2, 6) as usize;
    let shape = r.below(8);
    let mut objs = Vec::new();
    for j in 0..n {
        // permuted insertion order
        let mut order: Vec<usize> = (0..nk).collect();
        for i in (1..nk).rev() {
            let t = r.usize_below(i + 1);
            order.swap(i, t);
        }
        let base = r.below(3) as i64;
        let fields: Vec<String> = order
            .iter()
            .map(|&i| {
                let val = (j as i64 + base) * signs[i] + if r.chance(1, 5) { r.below(2) as i64 } else { 0 };
                let v = match shape {
                    0 => format!("[{val}]"),
                    1 => format!("{{\"y\":{val},\"x\":{}}}", -val),
                    2 => format!("\"{}\"", ["a", "b", "c", "d", "e", "f", "g", "h", "i"][(val.rem_euclid(9)) as usize]),
                    _ => val.to_string(),
                };
                format!("\"{}\":{v}", keys[i])
            })
            .collect();
        objs.push(format!("{{{}}}", fields.join(",")));
    }
    match r.below(6) {
        0 => format!("[{}]", objs.iter().map(|o| format!("[{o}]")).collect::<Vec<_>>().join(",")),
        1 => format!("[{}]", objs.iter().map(|o| format!("{{\"w\":{o}}}")).collect::<Vec<_>>().join(",")),
        _ => format!("[{}]", objs.join(",")),
    }
}


/// Strings on which byte counts, UTF-16 units and character counts all differ: 2-, 3- and 4-byte
/// characters, combining marks, mixed with ASCII.
pub const TEXT_STRS: &[&str] = &[
    "héllo", "日本語テキスト", "a😀b😀", "e\u{301}x", "naïve café", "ÅÄÖ", "😀", "ß", "𝔘𝔫𝔦code", "éé", "a\u{308}\u{323}b", "x日y😀z", "Ünï", "abc", "", "añb",
    "👨\u{200d}👩\u{200d}👧", "ｆｕｌｌ", "\u{7f}é",
];

fn json_str(s: &str) -> String {
    let mut o = String::from("\"");
    for c in s.chars() {
        match c {
            '"' => o.push_str("\\\""),
            '\\' => o.push_str("\\\\"),
            c if (c as u32) < 0x20 || c as u32 == 0x7f => o.push_str(&format!("\\u{:04x}", c as u32)),
            c => o.push(c),
        }
    }
    o.push('"');
    o
}

/// Document root of the text class: non-ASCII strings at every place the programs of
/// `gen_text_program` navigate to, slice bounds (negative, null, fractional) as data, and a piece `p`
/// cut out of `.s` by characters (for ltrimstr / index / indices / split / test / sub …).
pub fn gen_text_root(r: &mut Rng) -> String {
    let pick = |r: &mut Rng| -> &'static str { *r.pick(TEXT_STRS) };
    let s = pick(r);
    let chars: Vec<char> = s.chars().collect();
    let piece: String = if chars.is_empty() || r.chance(1, 5) {
        pick(r).chars().take(1).collect()
    } else {
        let i = r.usize_below(chars.len());
        let n = 1 + r.usize_below(2.min(chars.len() - i));
        chars[i..i + n].iter().collect()
    };
    let bound = |r: &mut Rng| -> i64 { r.below(15) as i64 - 8 };
    let ints: Vec<String> = (0..r.range(0, 6)).map(|_| (r.below(20) as i64 - 5).to_string()).collect();
    format!(
        "{{\"s\":{},\"b\":{},\"c\":{{\"s\":{},\"k\":[{},{}]}},\"a\":[{}],\"m\":[{{\"k\":{},\"v\":{}}}],\"from\":{},\"to\":{},\"n\":null,\"f\":{},\"i\":{},\"p\":{}}}",
        json_str(s),
        json_str(pick(r)),
        json_str(pick(r)),
        json_str(pick(r)),
        json_str(pick(r)),
        ints.join(","),
        json_str(pick(r)),
        bound(r),
        bound(r),
        bound(r),
        *r.pick(&["1.5", "-1.5", "2.0", "0.5", "-0.5", "1e0", "3.7"]),
        r.below(5),
        json_str(&piece)
    )
}

/// Programs of the text class: computed slice bounds (arithmetic, paths, variables, negative via
/// `0-n` / `-n`, null, floats) on navigated strings and arrays, and the builtins where counting bytes
/// instead of characters (or the reverse) shows. (No regex builtins: the harness links the library
/// without its `regex` feature, where they all answer "regex feature not enabled".)
pub fn gen_text_program(r: &mut Rng) -> String {
    const TARGETS: &[&str] = &[".s", ".b", ".c.s", ".c.k[0]", ".c.k[1]", ".m[0].k", "(.s + .b)", ".a", ".c.k", "[.s, .b, .c.s]", ".[\"s\"]", ".c | .s"];
    // bounds evaluated against the root (written inside `T[lo:hi]`)
    const ROOT_B: &[&str] = &[".from", ".to", ".i", ".n", ".f", "null", "(.from + 1)", "(.to - 1)", "-(.i)", "(0 - .i)", "(.a | length)", "(.from, .to)", "(.i * -1)", "$k", "$j", "(.m[0].v)"];
    // bounds evaluated against the target itself (written inside `T | .[lo:hi]`)
    const SELF_B: &[&str] = &["(0-1)", "(0-2)", "(0-3)", "(length - 1)", "(length - 2)", "(length / 2)", "(1 - length)", "-(1)", "(0 - 100)", "(1 + 1)", "null", "1.5", "(0 - 1.5)", "-2", "-1", "2", "(utf8bytelength - length)?", "$k", "(length * -1)"];
    let t = *r.pick(TARGETS);
    let opt = |r: &mut Rng, xs: &[&'static str]| -> String { if r.chance(1, 4) { String::new() } else { (*r.pick(xs)).to_string() } };
    let body = match r.below(12) {
        0..=3 => {
            let (lo, hi) = (opt(r, ROOT_B), opt(r, ROOT_B));
            if lo.is_empty() && hi.is_empty() { format!("{t}[.from:]") } else { format!("{t}[{lo}:{hi}]") }
        }
        4..=6 => {
            let (lo, hi) = (opt(r, SELF_B), opt(r, SELF_B));
            if lo.is_empty() && hi.is_empty() { format!("{t} | .[(0-2):]") } else { format!("{t} | .[{lo}:{hi}]") }
        }
        7 => format!("[{t} | .[.[1:] | length:], .[:(0 - 1)], .[(0-2):(0-1)]]"),
        8 => {
            let f = *r.pick(&["length", "utf8bytelength", "explode", "explode | implode", "[explode[] | [.] | implode]", "ascii_downcase", "ascii_upcase", "@base64", "@base64 | @base64d", "@uri", "@html", "@json", "@text", "tojson", "tojson | fromjson", "[.] | @csv", "[.] | @tsv", "@sh", ". * 2", "[limit(3; explode[])]", "explode | length", "split(\"\")", "ascii?", "trim", "ltrimstr(\"a\")", "@json \"v\\(.)\"", "\"<\\(.)>\" | length"]);
            format!("{t} | {f}")
        }
        9..=10 => {
            let f = *r.pick(&["ltrimstr($p)", "rtrimstr($p)", "index($p)", "rindex($p)", "indices($p)", "split($p)", ". / $p", "startswith($p)", "endswith($p)", "contains($p)", "inside($p + .)", "ltrimstr($p) | length", "index($p) as $n | .[$n:]", "[indices($p)[] as $n | .[$n:($n + 1)]]", "split($p) | join($p)", "(. + $p) | rindex($p)", "[.[index($p):]?, .[:rindex($p)]?]", "ascii_downcase | index($p | ascii_downcase)"]);
            format!(".p as $p | {t} | {f}")
        }
        _ => {
            let f = *r.pick(&["map(length)", "map(utf8bytelength)", "map(.[(0-1):])", "map(.[:(0-1)])", "join(\"é\")", "map(explode | length)", "sort", "map(ascii_downcase)", "add | length", "map(.[1:2])", "[.[] | .[(0-2):(0-1)]]"]);
            format!("[.s, .b, .c.s, .c.k[]] | {f}")
        }
    };
    let prog = if body.contains("$k") || body.contains("$j") { format!(".from as $k | .to as $j | {body}") } else { body };
    match r.below(6) {
        0 => format!("[{prog}]"),
        1 => format!("try ({prog}) catch ."),
        _ => prog,
    }
}

/// The "standard root": an object with fields of known types, so typed programs are mostly valid.
pub fn gen_root(r: &mut Rng) -> String {
    let nums = |r: &mut Rng| {
        let n = r.below(6);
        let xs: Vec<String> = (0..n).map(|_| gen_num(r)).collect();
        format!("[{}]", xs.join(","))
    };
    let objs = |r: &mut Rng| {
        let n = r.below(4);
        let xs: Vec<String> = (0..n)
            .map(|_| format!("{{\"k\":{},\"v\":{}}}", gen_str_lit(r), gen_num(r)))
            .collect();
        format!("[{}]", xs.join(","))
    };
    let mut fs = vec![
        format!("\"a\":{}", nums(r)),
        format!("\"b\":{}", gen_str_lit(r)),
        format!("\"c\":{}", gen_obj(r, 2)),
        format!("\"n\":{}", gen_num(r)),
        format!("\"s\":{}", gen_str_lit(r)),
        format!("\"t\":{}", r.pick(&["true", "false", "null"])),
        format!("\"m\":{}", objs(r)),
        format!("\"x\":{}", gen_json(r, 3)),
    ];
    if r.chance(1, 5) {
        // duplicate of a typed field: last value wins, first position kept
        let i = r.usize_below(fs.len());
        let dup = match i {
            0 => format!("\"a\":{}", nums(r)),
            1 => format!("\"b\":{}", gen_str_lit(r)),
            3 => format!("\"n\":{}", gen_num(r)),
            _ => format!("\"x\":{}", gen_json(r, 2)),
        };
        fs.push(dup);
    }
    if r.chance(1, 6) {
        let j = r.usize_below(fs.len());
        fs.swap(0, j);
    }
    format!("{{{}}}", fs.join(","))
}

// ---------------------------------------------------------------- program generator

#[derive(Clone, Copy, PartialEq, Debug)]
pub enum Ty {
    Any,
    Root,
    Num,
    Str,
    Bool,
    Arr,  // array of anything
    NArr, // array of numbers
    OArr, // array of {k,v} objects
    Obj,
}

const P_PIPE: u8 = 0;
const P_COMMA: u8 = 1;
const P_ALT: u8 = 2;
const P_ASSIGN: u8 = 3;
const P_OR: u8 = 4;
const P_AND: u8 = 5;
const P_CMP: u8 = 6;
const P_ADD: u8 = 7;
const P_MUL: u8 = 8;
const P_TERM: u8 = 10;

struct E {
    s: String,
    p: u8,
    t: Ty,
}

fn e(s: impl Into<String>, p: u8, t: Ty) -> E {
    E { s: s.into(), p, t }
}

fn wrap(x: &E, need: u8) -> String {
    if x.p >= need {
        x.s.clone()
    } else {
        format!("({})", x.s)
    }
}

struct Gen<'a> {
    r: &'a mut Rng,
    vars: Vec<(String, Ty)>,
    labels: Vec<String>,
    funcs: Vec<(String, usize)>,
    wild: bool, // include builtins outside the modelled table
}

impl Gen<'_> {
    fn small_int(&mut self) -> String {
        self.r.below(5).to_string()
    }

    fn num_lit(&mut self) -> String {
        match self.r.below(8) {
            0..=4 => self.r.below(10).to_string(),
            5 => format!("{}.{}", self.r.below(10), self.r.below(10)),
            _ => (*self.r.pick(&["0", "1", "2", "1.5", "1.0", "100", "1e3", "0.1", "9007199254740993", "1e308", "9223372036854775807"])).to_string(),
        }
    }

    fn str_lit(&mut self) -> String {
        format!("\"{}\"", self.r.pick(&["", "a", "b", "abc", "a,b", ",", " ", "é", "x\\ny", "k", "v", "hello"]))
    }

    /// a path expression (valid left-hand side / argument of path(), del(), paths) for input `it`
    fn path(&mut self, d: u32, it: Ty) -> E {
        let k = self.r.below(if d == 0 { 6 } else { 14 });
        match k {
            0 => e(".", P_TERM, it),
            1 => match it {
                Ty::Root => {
                    let (f, t) = *self.r.pick(&[("a", Ty::NArr), ("b", Ty::Str), ("c", Ty::Obj), ("n", Ty::Num), ("s", Ty::Str), ("t", Ty::Bool), ("m", Ty::OArr), ("x", Ty::Any)]);
                    e(format!(".{f}"), P_TERM, t)
                }
                Ty::NArr | Ty::Arr | Ty::OArr => {
                    let i = *self.r.pick(&["0", "1", "-1", "2", "5"]);
                    e(format!(".[{i}]"), P_TERM, elem_ty(it))
                }
                _ => {
                    let f = *self.r.pick(&["k", "v", "a", "x", "y", "key", "value"]);
                    e(format!(".{f}"), P_TERM, Ty::Any)
                }
            },
            2 => match it {
                Ty::NArr | Ty::Arr | Ty::OArr | Ty::Obj | Ty::Root => e(".[]", P_TERM, elem_ty(it)),
                _ => e(".[]?", P_TERM, Ty::Any),
            },
            3 => {
                let f = *self.r.pick(&["a", "c", "x", "m", "k"]);
                e(format!(".[\"{f}\"]"), P_TERM, Ty::Any)
            }
            4 => e(format!(".{}?", self.r.pick(&["a", "x", "k", "n"])), P_TERM, Ty::Any),
            5 => match it {
                Ty::NArr | Ty::Arr | Ty::OArr | Ty::Str => {
                    let (a, b) = *self.r.pick(&[("1", ""), ("", "2"), ("1", "3"), ("-2", ""), ("0", "-1")]);
                    e(format!(".[{a}:{b}]"), P_TERM, it)
                }
                _ => e(".x", P_TERM, Ty::Any),
            },
            6 | 7 => {
                // (a leading `. |` makes succinctly resolve the path to the root: recorded C24 finding)
                let mut a = self.path(d - 1, it);
                if a.s == "." {
                    a = e(".x", P_TERM, Ty::Any);
                }
                let mut b = self.path(d - 1, a.t);
                if b.s == "." {
                    b = e(".x", P_TERM, Ty::Any);
                }
                e(format!("{} | {}", wrap(&a, P_COMMA), wrap(&b, P_PIPE)), P_PIPE, b.t)
            }
            8 => {
                let a = self.path(d - 1, it);
                let b = self.path(d - 1, it);
                e(format!("{}, {}", wrap(&a, P_COMMA), wrap(&b, P_ALT)), P_COMMA, Ty::Any)
            }
            9 => {
                let a = self.path(d - 1, it);
                let c = self.cond(d - 1, a.t);
                e(format!("{} | select({})", wrap(&a, P_COMMA), c.s), P_PIPE, a.t)
            }
            10 => e("..", P_TERM, Ty::Any),
            11 => {
                let a = self.path(d - 1, it);
                e(format!("first({})", a.s), P_TERM, a.t)
            }
            12 => {
                let a = self.path(d - 1, it);
                let b = self.path(d - 1, it);
                e(format!("{} // {}", wrap(&a, P_ASSIGN), wrap(&b, P_ALT)), P_ALT, Ty::Any)
            }
            _ => {
                let c = self.cond(d - 1, it);
                let a = self.path(d - 1, it);
                let b = self.path(d - 1, it);
                e(format!("if {} then {} else {} end", c.s, a.s, b.s), P_TERM, Ty::Any)
            }
        }
    }

    /// boolean-ish expression over input `it`
    fn cond(&mut self, d: u32, it: Ty) -> E {
        let k = self.r.below(if d == 0 { 4 } else { 9 });
        match k {
            0 => {
                let op = *self.r.pick(&["==", "!=", "<", "<=", ">", ">="]);
                let rhs = match it {
                    Ty::Num => self.num_lit(),
                    Ty::Str => self.str_lit(),
                    _ => (*self.r.pick(&["null", "1", "\"a\"", "[]", "{}", "true"])).to_string(),
                };
                e(format!(". {op} {rhs}"), P_CMP, Ty::Bool)
            }
            1 => e(format!("type == \"{}\"", self.r.pick(&["number", "string", "array", "object", "null", "boolean"])), P_CMP, Ty::Bool),
            2 => {
                let c = *self.r.pick(&["true", "false", "null", ".", "not", "length > 1"]);
                e(c, guess_prec(c), Ty::Bool)
            }
            3 => match it {
                Ty::Root => e(format!("has(\"{}\")", self.r.pick(&["a", "q", "n"])), P_TERM, Ty::Bool),
                Ty::Str => e(format!("{}({})", self.r.pick(&["startswith", "endswith", "contains"]), self.str_lit()), P_TERM, Ty::Bool),
                Ty::Num => e(format!(". % 2 == {}", self.r.below(2)), P_CMP, Ty::Bool),
                _ => e("length > 0", P_CMP, Ty::Bool),
            },
            4 => {
                let a = self.cond(d - 1, it);
                let b = self.cond(d - 1, it);
                e(format!("{} and {}", wrap(&a, P_AND), wrap(&b, P_CMP)), P_AND, Ty::Bool)
            }
            5 => {
                let a = self.cond(d - 1, it);
                let b = self.cond(d - 1, it);
                e(format!("{} or {}", wrap(&a, P_OR), wrap(&b, P_AND)), P_OR, Ty::Bool)
            }
            6 => {
                let a = self.cond(d - 1, it);
                e(format!("{} | not", wrap(&a, P_COMMA)), P_PIPE, Ty::Bool)
            }
            7 => {
                let a = self.expr(d - 1, it);
                let b = self.expr(d - 1, it);
                let op = *self.r.pick(&["==", "!=", "<", "<=", ">", ">="]);
                e(format!("{} {op} {}", wrap(&a, P_ADD), wrap(&b, P_ADD)), P_CMP, Ty::Bool)
            }
            _ => {
                let a = self.expr(d - 1, it);
                e(format!("{} | {}", wrap(&a, P_COMMA), self.r.pick(&["any", "all", "not", "isempty(.[]?)", "type == \"array\""])), P_PIPE, Ty::Bool)
            }
        }
    }

    /// builtin call (no leading pipe) applicable to input type `it`
    fn builtin(&mut self, d: u32, it: Ty) -> E {
        let dd = d.saturating_sub(1);
        // generic builtins, valid on anything
        let generic: &[(&str, Ty)] = &[
            ("type", Ty::Str), ("tojson", Ty::Str), ("tostring", Ty::Str), ("not", Ty::Bool), ("[.]", Ty::Arr), ("{v: .}", Ty::Obj),
            ("@json", Ty::Str), ("@text", Ty::Str), ("[paths]", Ty::Arr), ("[leaf_paths]", Ty::Arr), ("[..]", Ty::Arr), ("[tostream]", Ty::Arr),
            ("fromstream(tostream)", Ty::Any), ("tojson | fromjson", Ty::Any), ("[.[]?]", Ty::Arr), ("values", Ty::Any), ("nulls", Ty::Any),
            ("scalars", Ty::Any), ("iterables", Ty::Any), ("numbers", Ty::Num), ("strings", Ty::Str), ("arrays", Ty::Arr), ("objects", Ty::Obj),
            ("booleans", Ty::Bool), ("empty", Ty::Any), ("error", Ty::Any), ("isvalid(.a)", Ty::Bool), ("[recurse]", Ty::Arr),
            ("[splits(\"a\")?]", Ty::Arr), ("ascii?", Ty::Any), ("@sh?", Ty::Str), ("infinite", Ty::Num), ("nan | isnan", Ty::Bool),
            ("halt_error?", Ty::Any), ("input_line_number?", Ty::Any), ("getpath([\"a\",0])?", Ty::Any), ("[getpath([\"c\"], [\"n\"])?]", Ty::Arr),
            ("try error(\"x\") catch .", Ty::Str), ("try error({a:1}) catch .a", Ty::Num), ("error(null)?", Ty::Any), ("@base32?", Ty::Str),
            ("tojson | @base64", Ty::Str), ("walk(.)", Ty::Any), ("walk(if type == \"number\" then . + 1 else . end)", Ty::Any),
            ("[limit(3; .[]?)]", Ty::Arr), ("first(.[]?)", Ty::Any), ("[.[]?] | last", Ty::Any), ("isempty(.[]?)", Ty::Bool),
            ("path(..)", Ty::Arr), ("[path(..)] | length", Ty::Num), ("del(.[0]?)", Ty::Any), ("to_entries?", Ty::Arr),
            ("utf8bytelength?", Ty::Num), ("length?", Ty::Num), ("keys?", Ty::Arr), ("tonumber?", Ty::Num), ("ltrimstr(\"a\")", Ty::Any),
            ("rtrimstr(\"c\")", Ty::Any), ("ascii_downcase?", Ty::Str), ("explode?", Ty::Arr), ("@html?", Ty::Str), ("@uri?", Ty::Str),
            ("@csv?", Ty::Str), ("@tsv?", Ty::Str), ("@base64?", Ty::Str), ("@base64d?", Ty::Str), ("abs?", Ty::Num), ("toarray?", Ty::Arr),
            ("trim?", Ty::Str), ("ltrim?", Ty::Str), ("rtrim?", Ty::Str), ("tojson | length", Ty::Num), ("debug", Ty::Any), ("[.,1] | transpose?", Ty::Arr),
            ("getpath([\"n\"]) as $v | $v", Ty::Any), ("env | type", Ty::Str), ("$ENV | type", Ty::Str), ("now | type", Ty::Str),
            ("splits(\"x\")?", Ty::Any), ("test(\"a\")?", Ty::Bool), ("ascii(65)?", Ty::Any), ("gsub(\"a\";\"b\")?", Ty::Str), ("halt", Ty::Any),
            ("pick(.a)?", Ty::Any), ("have_literal_numbers", Ty::Bool), ("[limit(0; 1, 2)]", Ty::Arr), ("[limit(-1; 1, 2)]", Ty::Arr), ("nth(1; 1, 2, 3)", Ty::Num),
            ("[range(3)]", Ty::NArr), ("[range(1;4)]", Ty::NArr), ("[range(0;10;3)]", Ty::NArr), ("[range(5;0;-2)]", Ty::NArr), ("[range(0;1;0.3)]", Ty::NArr),
        ];
        let wild_start = 28usize; // entries from "[splits" on mix modelled and unmodelled spellings
        match it {
            Ty::Num if self.r.chance(3, 4) => {
                let b: &[(&str, Ty)] = &[
                    ("floor", Ty::Num), ("sqrt", Ty::Num), ("ceil", Ty::Num), ("round", Ty::Num), ("fabs", Ty::Num), ("tostring", Ty::Str), ("tojson", Ty::Str),
                    ("length", Ty::Num), ("isinfinite", Ty::Bool), ("isnan", Ty::Bool), ("isnormal", Ty::Bool), (". + 1", Ty::Num), (". * 2", Ty::Num), ("-.", Ty::Num),
                    (". / 3", Ty::Num), (". % 7", Ty::Num), (". - 0.5", Ty::Num), ("[., 1] | max", Ty::Num), ("[., 1] | min", Ty::Num), ("[limit(3; range(.))]", Ty::NArr),
                    ("trunc", Ty::Num), ("pow(.; 2)", Ty::Num), ("log", Ty::Num), ("exp", Ty::Num), ("exp10", Ty::Num), ("significand", Ty::Num), ("logb", Ty::Num),
                    ("tostring | tonumber", Ty::Num), ("@text", Ty::Str), ("[.] | implode?", Ty::Str), ("todate?", Ty::Str), ("abs", Ty::Num), ("toarray", Ty::Arr),
                    (". == 1", Ty::Bool), (". < 1.5", Ty::Bool), ("[., .] | unique", Ty::NArr), ("\"n=\\(.)\"", Ty::Str), ("@json \"v\\(.)\"", Ty::Str),
                ];
                let (s, t) = *self.r.pick(b);
                e(s, guess_prec(s), t)
            }
            Ty::Str if self.r.chance(3, 4) => {
                let lit = self.str_lit();
                let k = self.r.below(34);
                let (s, t): (String, Ty) = match k {
                    0 => ("length".into(), Ty::Num),
                    1 => ("utf8bytelength".into(), Ty::Num),
                    2 => ("ascii_downcase".into(), Ty::Str),
                    3 => ("ascii_upcase".into(), Ty::Str),
                    4 => (format!("ltrimstr({lit})"), Ty::Str),
                    5 => (format!("rtrimstr({lit})"), Ty::Str),
                    6 => (format!("startswith({lit})"), Ty::Bool),
                    7 => (format!("endswith({lit})"), Ty::Bool),
                    8 => (format!("split({lit})"), Ty::Arr),
                    9 => (format!("contains({lit})"), Ty::Bool),
                    10 => (format!("inside({lit})"), Ty::Bool),
                    11 => ("explode".into(), Ty::NArr),
                    12 => ("explode | implode".into(), Ty::Str),
                    13 => ("@base64".into(), Ty::Str),
                    14 => ("@base64 | @base64d".into(), Ty::Str),
                    15 => ("@uri".into(), Ty::Str),
                    16 => ("@html".into(), Ty::Str),
                    17 => ("tojson".into(), Ty::Str),
                    18 => ("tojson | fromjson".into(), Ty::Str),
                    19 => ("fromjson?".into(), Ty::Any),
                    20 => ("tonumber?".into(), Ty::Num),
                    21 => (format!("index({lit})"), Ty::Num),
                    22 => (format!("rindex({lit})"), Ty::Num),
                    23 => (format!("indices({lit})"), Ty::NArr),
                    24 => (format!(". + {lit}"), Ty::Str),
                    25 => (format!(". * {}", self.small_int()), Ty::Str),
                    26 => (format!(". / {lit}"), Ty::Arr),
                    27 => (format!(".[{}:{}]", self.r.below(3), self.r.pick(&["", "2", "-1"])), Ty::Str),
                    28 => ("trim".into(), Ty::Str),
                    29 => ("@sh".into(), Ty::Str),
                    30 => ("@uri | @urid?".into(), Ty::Str),
                    31 => (format!("test({lit})?"), Ty::Bool),
                    32 => ("\"<\\(.)>\"".into(), Ty::Str),
                    _ => ("@base32".into(), Ty::Str),
                };
                let p = guess_prec(&s);
                e(s, p, t)
            }
            Ty::NArr | Ty::Arr | Ty::OArr if self.r.chance(4, 5) => {
                let k = self.r.below(44);
                let et = elem_ty(it);
                let (s, t): (String, Ty) = match k {
                    0 => ("length".into(), Ty::Num),
                    1 => ("sort".into(), it),
                    2 => ("unique".into(), it),
                    3 => ("reverse".into(), it),
                    4 => ("add".into(), et),
                    5 => ("min".into(), et),
                    6 => ("max".into(), et),
                    7 => ("first".into(), et),
                    8 => ("last".into(), et),
                    9 => ("flatten".into(), Ty::Arr),
                    10 => ("any".into(), Ty::Bool),
                    11 => ("all".into(), Ty::Bool),
                    12 => ("keys".into(), Ty::NArr),
                    13 => ("to_entries".into(), Ty::Arr),
                    14 => (format!("map({})", self.expr(dd, et).s), Ty::Arr),
                    15 => (format!("map(select({}))", self.cond(dd, et).s), it),
                    16 => (format!("sort_by({})", self.expr(dd, et).s), it),
                    17 => (format!("group_by({})", self.expr(dd, et).s), Ty::Arr),
                    18 => (format!("unique_by({})", self.expr(dd, et).s), it),
                    19 => (format!("min_by({})", self.expr(dd, et).s), et),
                    20 => (format!("max_by({})", self.expr(dd, et).s), et),
                    21 => (format!("any({})", self.cond(dd, et).s), Ty::Bool),
                    22 => (format!("all({})", self.cond(dd, et).s), Ty::Bool),
                    23 => (format!("join({})", self.str_lit()), Ty::Str),
                    24 => (format!("index({})", self.num_lit()), Ty::Num),
                    25 => (format!("indices({})", self.num_lit()), Ty::NArr),
                    26 => (format!("contains([{}])", self.num_lit()), Ty::Bool),
                    27 => (format!("inside([{}, 1, 2])", self.num_lit()), Ty::Bool),
                    28 => (format!("has({})", self.small_int()), Ty::Bool),
                    29 => (format!(".[{}]", self.r.pick(&["0", "1", "-1", "3", "0, 1", "1.7"])), et),
                    30 => (format!(".[{}:{}]", self.r.pick(&["", "1", "-2"]), self.r.pick(&["", "2", "-1", "10"])), it),
                    31 => (format!("first(.[] | select({}))", self.cond(dd, et).s), et),
                    32 => (format!("[.[] | {}]", self.expr(dd, et).s), Ty::Arr),
                    33 => (format!("[limit({}; .[])]", self.small_int()), it),
                    34 => (format!("reduce .[] as $e ({}; {})", self.r.pick(&["0", "null", "[]", "\"\""]), self.r.pick(&[". + $e", ". + 1", "[$e] + .", "$e", ". + ($e | tostring)"])), Ty::Any),
                    35 => (format!("[foreach .[] as $e ({}; {}; {})]", self.r.pick(&["0", "[]"]), self.r.pick(&[". + 1", ". + $e", ". + [$e]"]), self.r.pick(&[".", "[$e, .]", "$e"])), Ty::Arr),
                    36 => (". - [1, 2]".into(), it),
                    37 => (". + [null]".into(), Ty::Arr),
                    38 => ("transpose?".into(), Ty::Arr),
                    39 => ("combinations?".into(), Ty::Arr),
                    40 => ("@csv".into(), Ty::Str),
                    41 => ("@tsv".into(), Ty::Str),
                    42 => ("implode?".into(), Ty::Str),
                    _ => (format!("flatten({})", self.small_int()), Ty::Arr),
                };
                let p = guess_prec(&s);
                e(s, p, t)
            }
            Ty::Obj | Ty::Root if self.r.chance(4, 5) => {
                let k = self.r.below(26);
                let key = if it == Ty::Root { *self.r.pick(&["a", "b", "c", "n", "s", "m", "x", "q"]) } else { *self.r.pick(&["k", "v", "a", "x", "y"]) };
                let (s, t): (String, Ty) = match k {
                    0 => ("keys".into(), Ty::Arr),
                    1 => ("keys_unsorted".into(), Ty::Arr),
                    2 => ("length".into(), Ty::Num),
                    3 => ("to_entries".into(), Ty::Arr),
                    4 => ("to_entries | from_entries".into(), Ty::Obj),
                    5 => (format!("with_entries({})", self.r.pick(&[".", ".value |= tostring", "select(.key != \"a\")", ".key |= ascii_upcase", ".value = 1", "{key: .key, value: .key}"])), Ty::Obj),
                    6 => (format!("has(\"{key}\")"), Ty::Bool),
                    7 => (format!("del(.{key})"), Ty::Obj),
                    8 => (format!("del({})", self.path(dd, it).s), Ty::Any),
                    9 => (format!("map_values({})", self.r.pick(&[".", "tostring", "type", "empty", "select(. != null)"])), Ty::Obj),
                    10 => (format!("map({})", self.r.pick(&["type", ".", "tojson"])), Ty::Arr),
                    11 => ("[.[]]".into(), Ty::Arr),
                    12 => ("add?".into(), Ty::Any),
                    13 => (format!(". + {{\"{key}\": 1}}"), Ty::Obj),
                    14 => (format!(". * {{\"{key}\": {{\"z\": 1}}}}"), Ty::Obj),
                    15 => (format!("contains({{\"{key}\": 1}})?"), Ty::Bool),
                    16 => (format!("[paths({})]", self.cond(dd, Ty::Any).s), Ty::Arr),
                    17 => (format!("[path({})]", self.path(dd, it).s), Ty::Arr),
                    18 => (format!("getpath([\"{key}\"])"), Ty::Any),
                    19 => (format!("setpath([\"{key}\"]; {})", self.num_lit()), Ty::Obj),
                    20 => (format!("delpaths([[\"{key}\"]])"), Ty::Obj),
                    21 => (format!(". as $o | \"{key}\" | in($o)"), Ty::Bool),
                    22 => (format!("to_entries | map(select(.key == \"{key}\")) | from_entries"), Ty::Obj),
                    23 => (format!("pick(.{key})?"), Ty::Obj),
                    24 => ("any".into(), Ty::Bool),
                    _ => ("[to_entries[] | .key]".into(), Ty::Arr),
                };
                let p = guess_prec(&s);
                e(s, p, t)
            }
            _ => {
                let n = if self.wild { generic.len() } else { wild_start };
                let (s, t) = generic[self.r.usize_below(n)];
                e(s, guess_prec(s), t)
            }
        }
    }

    fn expr(&mut self, d: u32, it: Ty) -> E {
        if d == 0 {
            return self.leaf(it);
        }
        let k = self.r.below(40);
        let dd = d - 1;
        match k {
            0..=5 => {
                // pipe: navigate then apply something typed
                let a = self.path(dd, it);
                let b = self.expr(dd, a.t);
                e(format!("{} | {}", wrap(&a, P_COMMA), wrap(&b, P_PIPE)), P_PIPE, b.t)
            }
            6..=9 => self.builtin(d, it),
            10 | 11 => {
                let a = self.expr(dd, it);
                let b = self.builtin(d, a.t);
                e(format!("{} | {}", wrap(&a, P_COMMA), wrap(&b, P_PIPE)), P_PIPE, b.t)
            }
            12 => {
                let a = self.expr(dd, it);
                let b = self.expr(dd, it);
                e(format!("{}, {}", wrap(&a, P_COMMA), wrap(&b, P_ALT)), P_COMMA, Ty::Any)
            }
            13 | 14 => {
                let a = self.expr(dd, it);
                let b = self.expr(dd, it);
                let (op, lp, rp, rl) = *self.r.pick(&[("+", P_ADD, P_MUL, P_ADD), ("-", P_ADD, P_MUL, P_ADD), ("*", P_MUL, P_TERM, P_MUL), ("/", P_MUL, P_TERM, P_MUL), ("%", P_MUL, P_TERM, P_MUL)]);
                if op == "*" {
                    // `string * huge number` aborts the process on allocation (outside this property):
                    // one operand of `*` is always a small literal
                    let k = (*self.r.pick(&["0", "1", "2", "3", "1.5", "-1", "{\"z\": 1}", "null"])).to_string();
                    return if self.r.chance(1, 2) {
                        e(format!("{} * {k}", wrap(&a, lp)), rl, Ty::Any)
                    } else {
                        e(format!("{k} * {}", wrap(&b, rp)), rl, Ty::Any)
                    };
                }
                e(format!("{} {op} {}", wrap(&a, lp), wrap(&b, rp)), rl, Ty::Any)
            }
            15 => self.cond(d, it),
            16 => {
                let a = self.expr(dd, it);
                let b = self.expr(dd, it);
                e(format!("{} // {}", wrap(&a, P_ASSIGN), wrap(&b, P_ALT)), P_ALT, Ty::Any)
            }
            17 | 18 => {
                let c = self.cond(dd, it);
                let a = self.expr(dd, it);
                if self.r.chance(1, 4) {
                    e(format!("if {} then {} end", c.s, a.s), P_TERM, Ty::Any)
                } else if self.r.chance(1, 4) {
                    let c2 = self.cond(dd, it);
                    let b = self.expr(dd, it);
                    let c3 = self.leaf(it);
                    e(format!("if {} then {} elif {} then {} else {} end", c.s, a.s, c2.s, b.s, c3.s), P_TERM, Ty::Any)
                } else {
                    let b = self.expr(dd, it);
                    e(format!("if {} then {} else {} end", c.s, a.s, b.s), P_TERM, Ty::Any)
                }
            }
            19 => {
                let a = self.expr(dd, it);
                if self.r.chance(1, 2) {
                    e(format!("try {} catch {}", wrap(&a, P_TERM), self.r.pick(&[".", "\"caught\"", "length", "(. | tostring)"])), P_TERM, Ty::Any)
                } else {
                    e(format!("try {}", wrap(&a, P_TERM)), P_TERM, Ty::Any)
                }
            }
            20 => {
                let a = self.expr(dd, it);
                e(format!("{}?", wrap(&a, P_TERM)), P_TERM, a.t)
            }
            21 | 22 => {
                let a = self.expr(dd, it);
                e(format!("[{}]", a.s), P_TERM, Ty::Arr)
            }
            23 | 24 => {
                let n = self.r.range(1, 3);
                let mut fs = Vec::new();
                for i in 0..n {
                    let v = self.expr(dd.min(1), it);
                    let key = match self.r.below(6) {
                        0 => format!("\"k{i}\""),
                        1 => format!("({})", self.r.pick(&["\"dyn\"", ".b", ".s", "\"a\", \"b\"", "1", "null"])),
                        2 if !self.vars.is_empty() => {
                            let (name, _) = self.vars[self.r.usize_below(self.vars.len())].clone();
                            fs.push(format!("${name}"));
                            continue;
                        }
                        3 => {
                            fs.push((*self.r.pick(&["a", "b", "n", "q"])).to_string());
                            continue;
                        }
                        _ => format!("{}", ["a", "b", "c"][i as usize % 3]),
                    };
                    fs.push(format!("{key}: {}", wrap(&v, P_TERM)));
                }
                e(format!("{{{}}}", fs.join(", ")), P_TERM, Ty::Obj)
            }
            25 => {
                // variable binding
                let a = self.expr(dd, it);
                let name = format!("v{}", self.vars.len());
                self.vars.push((name.clone(), a.t));
                let b = self.expr(dd, it);
                self.vars.pop();
                e(format!("{} as ${name} | {}", wrap(&a, P_TERM), b.s), P_PIPE - 0, Ty::Any).lowest()
            }
            26 => {
                // destructuring
                let name = format!("d{}", self.vars.len());
                let (src, pat) = match self.r.below(3) {
                    0 => ("[1, [2, 3]]".to_string(), format!("[${name}, [${name}b]]")),
                    1 => (".".to_string(), format!("{{a: ${name}, ${name}b}}")),
                    _ => (".m[0]?".to_string(), format!("{{k: ${name}, v: ${name}b}}")),
                };
                self.vars.push((name.clone(), Ty::Any));
                self.vars.push((format!("{name}b"), Ty::Any));
                let b = self.expr(dd, it);
                self.vars.pop();
                self.vars.pop();
                e(format!("{src} as {pat} | {}", b.s), P_PIPE, Ty::Any).lowest()
            }
            27 => {
                let src = self.r.pick(&["range(4)", ".a[]?", ".[]?", "(1, 2, 3)", ".m[]?.v", "empty"]).to_string();
                let init = self.r.pick(&["0", "null", "[]", ".", "{}", "(0, 1)"]).to_string();
                let name = format!("r{}", self.vars.len());
                self.vars.push((name.clone(), Ty::Any));
                let upd = match self.r.below(5) {
                    0 => format!(". + ${name}"),
                    1 => format!(". + [${name}]"),
                    2 => format!("if ${name} == 2 then empty else . end"),
                    3 => format!("(., ${name})"),
                    _ => self.expr(dd.min(1), Ty::Any).s,
                };
                self.vars.pop();
                e(format!("reduce {src} as ${name} ({init}; {upd})"), P_TERM, Ty::Any)
            }
            28 => {
                let src = self.r.pick(&["range(4)", ".a[]?", "(1, 2, 3)", ".m[]?", "empty"]).to_string();
                let init = self.r.pick(&["0", "null", "[]", "."]).to_string();
                let name = format!("f{}", self.vars.len());
                let upd = self.r.pick(&[". + 1", ". + [1]", "empty", "(., 10)"]).to_string();
                let ext = match self.r.below(4) {
                    0 => String::new(),
                    1 => format!("; [${name}, .]"),
                    2 => format!("; ${name}"),
                    _ => "; select(. != 2)".to_string(),
                };
                e(format!("foreach {src} as ${name} ({init}; {upd}{ext})"), P_TERM, Ty::Any)
            }
            29 => {
                let l = format!("l{}", self.labels.len());
                self.labels.push(l.clone());
                let a = self.expr(dd, it);
                self.labels.pop();
                let body = match self.r.below(3) {
                    0 => format!("({}, break ${l}, 99)", a.s),
                    1 => format!("({} | if . == null then break ${l} else . end)", wrap(&a, P_COMMA)),
                    _ => a.s,
                };
                e(format!("label ${l} | {body}"), P_PIPE, Ty::Any).lowest()
            }
            30 => {
                // function definitions
                let name = format!("f{}", self.funcs.len());
                let (defn, call) = match self.r.below(5) {
                    0 => (format!("def {name}: {};", self.expr(dd.min(1), it).s), name.clone()),
                    1 => (format!("def {name}(g): [g, g];"), format!("{name}({})", self.expr(dd.min(1), it).s)),
                    2 => (format!("def {name}($a; $b): $a + $b;"), format!("{name}({}; {})", self.num_lit(), self.r.pick(&["1", "(2, 3)", ".n", "null"]))),
                    3 => (format!("def {name}: if type == \"array\" and length > 0 then .[1:] | {name} else . end;"), name.clone()),
                    _ => (format!("def {name}(g): def h: g | g; h;"), format!("{name}({})", self.r.pick(&[". + 1", "tostring", "[.]", ".[0]?"]))),
                };
                e(format!("{defn} {call}"), P_PIPE, Ty::Any).lowest()
            }
            31 | 32 => {
                // assignment family
                let lhs = self.path(dd.min(2), it);
                let op = *self.r.pick(&["=", "|=", "+=", "-=", "*=", "/=", "%=", "//="]);
                let rhs = if op == "|=" {
                    self.expr(dd.min(1), lhs.t)
                } else if op == "*=" {
                    e(*self.r.pick(&["0", "1", "2", "3", "1.5", "-1", "{\"z\": 1}", "null"]), P_TERM, Ty::Any)
                } else {
                    self.expr(dd.min(1), it)
                };
                // always parenthesised: succinctly's parser ranks `//` above the assignment operators,
                // jq below (recorded as a C24 finding); the evaluators are what C23 compares
                e(format!("({} {op} {})", wrap(&lhs, P_OR), wrap(&rhs, P_OR)), P_TERM, it)
            }
            33 => {
                let a = self.expr(dd, it);
                e(format!("-{}", wrap(&a, P_TERM)), P_ADD, Ty::Num)
            }
            34 => {
                let a = self.expr(dd.min(1), it);
                let f = *self.r.pick(&["", "@json ", "@base64 ", "@uri ", "@html ", "@csv ", "@text ", "@sh "]);
                e(format!("{f}\"x\\({})y\"", a.s), P_TERM, Ty::Str)
            }
            35 => {
                let a = self.path(dd, it);
                let g = *self.r.pick(&["first", "last", "isempty", "path", "[paths] | length > 0 or isempty"]);
                if g.starts_with('[') {
                    e("[paths] | length", P_PIPE, Ty::Num)
                } else {
                    e(format!("{g}({})", a.s), P_TERM, Ty::Any)
                }
            }
            36 => {
                let a = self.expr(dd, it);
                let n = self.small_int();
                let g = *self.r.pick(&["limit", "nth", "limit", "until", "while", "recurse"]);
                match g {
                    "until" => e("until(. == null or (numbers | . > 100) or (type != \"number\"); . * 2 + 1)", P_TERM, Ty::Any),
                    "while" => e("[while(type == \"number\" and . < 50 and . > 0; . * 2)]", P_TERM, Ty::Arr),
                    "recurse" => e(format!("[{}]", self.r.pick(&["recurse(.[]?)", "recurse(if type == \"number\" and . < 3 and . >= 0 then . + 1 else empty end)", "recurse(.[]?; . != null)", "recurse_down?"])), P_TERM, Ty::Arr),
                    _ => e(format!("{g}({n}; {})", a.s), P_TERM, Ty::Any),
                }
            }
            37 if !self.vars.is_empty() => {
                let (name, t) = self.vars[self.r.usize_below(self.vars.len())].clone();
                e(format!("${name}"), P_TERM, t)
            }
            38 if !self.labels.is_empty() => {
                let l = self.labels[self.r.usize_below(self.labels.len())].clone();
                e(format!("break ${l}"), P_TERM, Ty::Any)
            }
            _ => {
                let a = self.expr(dd, it);
                e(format!("({})", a.s), P_TERM, a.t)
            }
        }
    }

    fn leaf(&mut self, it: Ty) -> E {
        match self.r.below(10) {
            0 | 1 => e(".", P_TERM, it),
            2 => e(self.num_lit(), P_TERM, Ty::Num),
            3 => e(self.str_lit(), P_TERM, Ty::Str),
            4 => e(*self.r.pick(&["null", "true", "false", "[]", "{}"]), P_TERM, Ty::Any),
            5 if !self.vars.is_empty() => {
                let (name, t) = self.vars[self.r.usize_below(self.vars.len())].clone();
                e(format!("${name}"), P_TERM, t)
            }
            6 | 7 => self.path(0, it),
            _ => self.builtin(0, it),
        }
    }
}

impl E {
    /// forms that extend as far right as possible (`as`, `label`, `def`)
    fn lowest(mut self) -> E {
        self.p = P_PIPE;
        // as a *left* operand they always need parentheses; force that by wrapping now half the time
        self.s = format!("({})", self.s);
        self.p = P_TERM;
        self
    }
}

fn elem_ty(t: Ty) -> Ty {
    match t {
        Ty::NArr => Ty::Num,
        Ty::OArr => Ty::Obj,
        _ => Ty::Any,
    }
}

/// conservative precedence of a canned snippet (top-level operator outside brackets)
fn guess_prec(s: &str) -> u8 {
    let mut depth = 0i32;
    let mut in_str = false;
    let b = s.as_bytes();
    let mut p = P_TERM;
    let mut i = 0;
    while i < b.len() {
        let c = b[i];
        if in_str {
            if c == b'\\' {
                i += 1;
            } else if c == b'"' {
                in_str = false;
            }
        } else {
            match c {
                b'"' => in_str = true,
                b'(' | b'[' | b'{' => depth += 1,
                b')' | b']' | b'}' => depth -= 1,
                _ if depth == 0 => {
                    let rest = &s[i..];
                    if rest.starts_with(" | ") {
                        p = p.min(P_PIPE);
                    } else if rest.starts_with(", ") {
                        p = p.min(P_COMMA);
                    } else if rest.starts_with(" // ") {
                        p = p.min(P_ALT);
                    } else if rest.starts_with(" as ") {
                        p = p.min(P_PIPE);
                    } else if rest.starts_with(" and ") || rest.starts_with(" or ") {
                        p = p.min(P_OR);
                    } else if rest.starts_with(" == ") || rest.starts_with(" != ") || rest.starts_with(" < ") || rest.starts_with(" > ") || rest.starts_with(" <= ") || rest.starts_with(" >= ") {
                        p = p.min(P_CMP);
                    } else if rest.starts_with(" + ") || rest.starts_with(" - ") || (i == 0 && c == b'-') {
                        p = p.min(P_ADD);
                    } else if rest.starts_with(" * ") || rest.starts_with(" / ") || rest.starts_with(" % ") {
                        p = p.min(P_MUL);
                    } else if rest.starts_with(" = ") || rest.starts_with(" |= ") || rest.starts_with(" += ") {
                        p = p.min(P_ASSIGN);
                    } else if rest.starts_with("try ") || rest.starts_with("@json \"") {
                        p = p.min(P_MUL);
                    }
                }
                _ => {}
            }
        }
        i += 1;
    }
    p
}

pub fn gen_program(r: &mut Rng, depth: u32, root: Ty, wild: bool) -> String {
    let mut g = Gen { r, vars: vec![], labels: vec![], funcs: vec![], wild };
    g.expr(depth, root).s
}

/// User-defined functions are expanded by substitution in succinctly, which re-reads the input
/// number from its printed form (a double ≥ 2^53 that prints as an integer continues as an exact
/// integer – recorded C24 finding); programs with `def` therefore get inputs without such numbers.
pub fn tame_big_numbers(input: &str) -> String {
    let mut s = input.to_string();
    for big in ["9223372036854775808", "-9223372036854775809", "18446744073709551616", "123456789012345678901234567890", "1e17", "1e19", "1e308", "-1e308", "1.7976931348623157e308", "9007199254740993", "9223372036854775807", "-9223372036854775808", "9007199254740992"] {
        s = s.replace(big, "7");
    }
    s
}

pub fn gen(tier: Tier, r: &mut Rng, emit: &mut dyn FnMut(String)) {
    // order-sensitive programs on object families (same key set, permuted insertion orders): both
    // evaluators share one comparator, so only the model comparison can see a wrong order here
    for p in ORDER_PROGS {
        emit(format!("C23 ev {} {}", hex_bytes(p.as_bytes()), hex_bytes(FAMILY_FIXED.as_bytes())));
    }
    // text class: computed slice bounds and byte-vs-character sensitive builtins on non-ASCII strings
    // that sit in the document (the two evaluators take different routes for computed bounds)
    for _ in 0..(if tier == Tier::Quick { 2_500 } else { 60_000 }) {
        let input = gen_text_root(r);
        let prog = gen_text_program(r);
        emit(format!("C23 ev {} {}", hex_bytes(prog.as_bytes()), hex_bytes(input.as_bytes())));
    }
    for _ in 0..(if tier == Tier::Quick { 400 } else { 20_000 }) {
        let input = gen_family(r);
        let p = *r.pick(ORDER_PROGS);
        let prog = match r.below(4) {
            0 => format!("[{p}]"),
            1 => format!("{p} | tojson"),
            _ => p.to_string(),
        };
        emit(format!("C23 ev {} {}", hex_bytes(prog.as_bytes()), hex_bytes(input.as_bytes())));
    }
    let n = if tier == Tier::Quick { 12_000 } else { 400_000 };
    let trace = std::env::var("SV_TRACE").is_ok();
    for i in 0..n {
        let depth = 1 + (i % 4) as u32; // depth 1..4
        let (input, root) = if r.chance(4, 5) { (gen_root(r), Ty::Root) } else { (gen_json(r, 3), Ty::Any) };
        let wild = r.chance(1, 4);
        let prog = gen_program(r, depth, root, wild);
        if trace {
            eprintln!("C23 ev {} {}", hex_bytes(prog.as_bytes()), hex_bytes(input.as_bytes()));
        }
        let input = if prog.contains("def ") { tame_big_numbers(&input) } else { input };
        emit(format!("C23 ev {} {}", hex_bytes(prog.as_bytes()), hex_bytes(input.as_bytes())));
        if i % 8 == 0 {
            // the same program on a second, untyped input (type-error paths)
            let input2 = gen_json(r, 2);
            emit(format!("C23 ev {} {}", hex_bytes(prog.as_bytes()), hex_bytes(input2.as_bytes())));
        }
    }
}
