//! C19 — malformed input never crashes the library or the CLI.
//!
//! Two kinds of request:
//!
//! * **modelled** (`acc`, `dsvf`): the JSON value-access layer and the DSV field slicer at an
//!   arbitrary offset; every accessor is run under its own `catch_unwind` and the answer is
//!   diffed byte for byte against the Lean model with explicit partiality (`Model/JsonTotal`).
//! * **monitored** (`json`, `yaml`, `dsv`, `jqp`, `iso`, `cli`): build + validate + full traversal +
//!   printing under `catch_unwind` with a wall-clock guard; only the panic/abort/timeout bit is
//!   compared (the driver answers `NOPANIC`; `tools/props/C19.py` canonicalises).
//!
//! Every request runs in a worker thread with an 8 MiB stack (the size of a Linux main thread),
//! so a stack overflow is what a library user would see.  Inputs that are deep enough to make that
//! a possibility are sent through `iso`, which re-executes this harness (`svharness replay`) as a
//! child process so that an abort is observed (`ABORT SIGNAL:<n>`) instead of killing the run.
use crate::rng::Rng;
use crate::util::*;
use crate::Tier;
use std::io::Write as _;
use std::time::{Duration, Instant};
use succinctly::jq::document::{DocumentCursor, DocumentElements, DocumentFields, DocumentValue, IndentSpec};
use succinctly::json::light::{JsonCursor, JsonError, JsonNumber, JsonString, StandardJson};
use succinctly::json::JsonIndex;
use succinctly::yaml::{YamlCursor, YamlIndex, YamlString, YamlValue};

pub fn tables() -> Vec<(&'static str, String)> {
    Vec::new()
}

// ------------------------------------------------------------------------------------------------
// infrastructure shared with c30.rs
// ------------------------------------------------------------------------------------------------

/// FNV-1a digest of everything a traversal observed (makes the answer depend on the values read, so
/// the optimiser cannot drop the reads, and gives replays a fingerprint).
pub struct Fnv(pub u64);
impl Fnv {
    pub fn new() -> Self {
        Fnv(0xcbf2_9ce4_8422_2325)
    }
    pub fn bytes(&mut self, b: &[u8]) {
        for &x in b {
            self.0 = (self.0 ^ x as u64).wrapping_mul(0x100_0000_01b3);
        }
        self.0 = (self.0 ^ 0xff).wrapping_mul(0x100_0000_01b3);
    }
    pub fn num(&mut self, n: u64) {
        self.bytes(&n.to_le_bytes());
    }
}

pub const GUARD_SECS: u64 = 20;

static LAST_PANIC: std::sync::Mutex<String> = std::sync::Mutex::new(String::new());
static HOOK: std::sync::Once = std::sync::Once::new();

/// Silent panic hook that remembers where the last panic happened (file:line + message), so a
/// monitored request can answer `PANIC <where> <what>` and findings can be classified by root cause.
pub fn install_hook() {
    HOOK.call_once(|| {
        std::panic::set_hook(Box::new(|info| {
            let loc = info.location().map(|l| {
                let f = l.file();
                let f = f.rsplit_once("/src/").map(|x| x.1).unwrap_or(f);
                format!("{}:{}", f, l.line())
            });
            let msg = if let Some(s) = info.payload().downcast_ref::<&str>() {
                s.to_string()
            } else if let Some(s) = info.payload().downcast_ref::<String>() {
                s.clone()
            } else {
                "?".to_string()
            };
            let msg: String = msg.chars().take(120).map(|c| if c == '\n' || c == '\t' { ' ' } else { c }).collect();
            if let Ok(mut g) = LAST_PANIC.lock() {
                *g = format!("{} {}", loc.unwrap_or_default(), msg);
            }
        }));
    });
}

pub fn last_panic() -> String {
    LAST_PANIC.lock().map(|g| g.clone()).unwrap_or_default()
}

type Job = Box<dyn FnOnce() -> String + Send + 'static>;
struct Worker {
    tx: std::sync::mpsc::Sender<Job>,
    rx: std::sync::mpsc::Receiver<String>,
}
static WORKER: std::sync::Mutex<Option<Worker>> = std::sync::Mutex::new(None);

fn new_worker() -> Option<Worker> {
    let (jtx, jrx) = std::sync::mpsc::channel::<Job>();
    let (rtx, rrx) = std::sync::mpsc::channel::<String>();
    std::thread::Builder::new()
        .stack_size(8 << 20)
        .spawn(move || {
            loop {
                // spin briefly before blocking: futex wake-ups cost ~0.5 ms on this host
                let mut job = None;
                for _ in 0..20_000 {
                    match jrx.try_recv() {
                        Ok(j) => {
                            job = Some(j);
                            break;
                        }
                        Err(std::sync::mpsc::TryRecvError::Empty) => std::hint::spin_loop(),
                        Err(_) => return,
                    }
                }
                let job = match job {
                    Some(j) => j,
                    None => match jrx.recv() {
                        Ok(j) => j,
                        Err(_) => return,
                    },
                };
                let r = std::panic::catch_unwind(std::panic::AssertUnwindSafe(job));
                let ans = match r {
                    Ok(s) => s,
                    Err(_) => format!("PANIC {}", last_panic()),
                };
                if rtx.send(ans).is_err() {
                    break;
                }
            }
        })
        .ok()?;
    Some(Worker { tx: jtx, rx: rrx })
}

/// Run `f` on the worker thread (8 MiB stack = a Linux main thread) under `catch_unwind`; `PANIC` if
/// it panics, `TIMEOUT` if it does not finish within `secs` (the worker is then abandoned and a
/// fresh one is started for the next request; thread creation is expensive on this host, hence
/// one long-lived worker instead of a thread per request).
pub fn guarded<F: FnOnce() -> String + Send + 'static>(secs: u64, f: F) -> String {
    install_hook();
    let mut g = WORKER.lock().unwrap_or_else(|e| e.into_inner());
    if g.is_none() {
        *g = new_worker();
    }
    let Some(w) = g.as_ref() else {
        return "HARNESS-ERROR thread spawn".into();
    };
    if w.tx.send(Box::new(f)).is_err() {
        *g = None;
        return "HARNESS-ERROR worker gone".into();
    }
    for _ in 0..20_000 {
        match w.rx.try_recv() {
            Ok(s) => return s,
            Err(std::sync::mpsc::TryRecvError::Empty) => std::hint::spin_loop(),
            Err(_) => {
                *g = None;
                return "PANIC".into();
            }
        }
    }
    match w.rx.recv_timeout(Duration::from_secs(secs)) {
        Ok(s) => s,
        Err(std::sync::mpsc::RecvTimeoutError::Timeout) => {
            *g = None; // abandon the stuck worker
            "TIMEOUT".into()
        }
        Err(_) => {
            *g = None;
            "PANIC".into()
        }
    }
}

/// Outcome of a child process: `Ok((status, stdout))` or `Err("TIMEOUT")`.
pub struct ChildOutcome {
    pub code: Option<i32>,
    pub signal: Option<i32>,
    pub stdout: Vec<u8>,
    /// first 16 KiB of stderr
    pub stderr: Vec<u8>,
    pub timed_out: bool,
}

/// `src/…:line message` of a Rust panic report on stderr (empty if none).
pub fn panic_site(stderr: &[u8]) -> String {
    let t = String::from_utf8_lossy(stderr);
    let mut lines = t.lines();
    while let Some(l) = lines.next() {
        if let Some(i) = l.find("panicked at ") {
            let loc = l[i + 12..].trim_end_matches(':');
            let loc = loc.rsplit_once("src/").map(|x| x.1).unwrap_or(loc);
            let loc = loc.rsplitn(2, ':').last().unwrap_or(loc); // drop the column
            let msg: String = lines.next().unwrap_or("").chars().take(120).collect();
            return format!("{loc} {msg}");
        }
        if l.contains("has overflowed its stack") || l.contains("memory allocation of") {
            return l.chars().take(120).collect();
        }
    }
    String::new()
}

/// Spawn `cmd`, feed `stdin`, wait at most `secs` seconds (kill on time-out).
pub fn run_child(mut cmd: std::process::Command, stdin: &[u8], secs: u64) -> Result<ChildOutcome, String> {
    use std::io::Read;
    use std::os::unix::process::ExitStatusExt;
    use std::process::Stdio;
    cmd.stdin(Stdio::piped()).stdout(Stdio::piped()).stderr(Stdio::piped());
    let mut ch = cmd.spawn().map_err(|e| format!("spawn: {e}"))?;
    let mut si = ch.stdin.take().unwrap();
    let data = stdin.to_vec();
    let wr = std::thread::spawn(move || {
        let _ = si.write_all(&data);
    });
    let mut so = ch.stdout.take().unwrap();
    let rd = std::thread::spawn(move || {
        let mut buf = Vec::new();
        // keep at most 16 MiB of output (a child echoes its request line, which can be several MB),
        // drain the rest
        let mut chunk = [0u8; 65536];
        loop {
            match so.read(&mut chunk) {
                Ok(0) | Err(_) => break,
                Ok(n) => {
                    if buf.len() < (16 << 20) {
                        buf.extend_from_slice(&chunk[..n]);
                    }
                }
            }
        }
        buf
    });
    let mut se = ch.stderr.take().unwrap();
    let rd_err = std::thread::spawn(move || {
        let mut buf = Vec::new();
        let mut chunk = [0u8; 8192];
        loop {
            match se.read(&mut chunk) {
                Ok(0) | Err(_) => break,
                Ok(n) => {
                    if buf.len() < (16 << 10) {
                        buf.extend_from_slice(&chunk[..n]);
                    }
                }
            }
        }
        buf
    });
    let t0 = Instant::now();
    let mut timed_out = false;
    let status = loop {
        match ch.try_wait() {
            Ok(Some(st)) => break st,
            Ok(None) => {
                if t0.elapsed() > Duration::from_secs(secs) {
                    let _ = ch.kill();
                    timed_out = true;
                    break ch.wait().map_err(|e| format!("wait: {e}"))?;
                }
                std::thread::sleep(Duration::from_micros(300));
            }
            Err(e) => return Err(format!("wait: {e}")),
        }
    };
    let _ = wr.join();
    let stdout = rd.join().unwrap_or_default();
    let stderr = rd_err.join().unwrap_or_default();
    Ok(ChildOutcome { code: status.code(), signal: status.signal(), stdout, stderr, timed_out })
}

/// Re-execute this harness on one request line (`svharness replay`), optionally under an
/// address-space ceiling (`ulimit -v`, KiB).  The child's main thread has the normal process
/// stack, and the harness runs requests in 8 MiB worker threads.
pub fn isolated(request: &str, secs: u64, ulimit_kib: Option<u64>) -> String {
    let exe = match std::env::current_exe() {
        Ok(e) => e,
        Err(_) => return "HARNESS-ERROR current_exe".into(),
    };
    let mut cmd;
    if let Some(k) = ulimit_kib {
        cmd = std::process::Command::new("sh");
        cmd.arg("-c").arg(format!("ulimit -v {k}; exec \"$0\" replay")).arg(&exe);
    } else {
        cmd = std::process::Command::new(&exe);
        cmd.arg("replay");
    }
    let mut line = request.as_bytes().to_vec();
    line.push(b'\n');
    match run_child(cmd, &line, secs) {
        Err(e) => format!("HARNESS-ERROR {e}"),
        Ok(o) if o.timed_out => "TIMEOUT".into(),
        Ok(o) => {
            if let Some(s) = o.signal {
                return format!("ABORT SIGNAL:{s} {}", panic_site(&o.stderr));
            }
            let text = String::from_utf8_lossy(&o.stdout);
            match text.lines().next().and_then(|l| l.split_once('\t')) {
                Some((_, ans)) => ans.to_string(),
                None => format!("ABORT EXIT:{}", o.code.unwrap_or(-1)),
            }
        }
    }
}

/// Run the CLI binary named by `SV_CLI` with `args` on `input`; classify the exit.
pub fn cli(args: &[&str], input: &[u8], secs: u64, ulimit_kib: Option<u64>) -> String {
    let Ok(bin) = std::env::var("SV_CLI") else {
        return "NOCLI".into();
    };
    if !std::path::Path::new(&bin).exists() {
        return "NOCLI".into();
    }
    let mut cmd;
    if let Some(k) = ulimit_kib {
        cmd = std::process::Command::new("sh");
        cmd.arg("-c").arg(format!("ulimit -v {k}; exec \"$0\" \"$@\"")).arg(&bin).args(args);
    } else {
        cmd = std::process::Command::new(&bin);
        cmd.args(args);
    }
    cmd.env("NO_COLOR", "1").env("TZ", "UTC").env("HOME", "/nonexistent").env_remove("RUST_BACKTRACE");
    match run_child(cmd, input, secs) {
        Err(e) => format!("HARNESS-ERROR {e}"),
        Ok(o) if o.timed_out => "TIMEOUT".into(),
        Ok(o) => {
            let mut f = Fnv::new();
            f.bytes(&o.stdout);
            match (o.signal, o.code) {
                (Some(s), _) => format!("ABORT SIGNAL:{s} {}", panic_site(&o.stderr)),
                (None, Some(101)) => format!("PANIC EXIT:101 {}", panic_site(&o.stderr)),
                (None, Some(c)) if c == 134 || c == 137 || c == 139 => format!("ABORT EXIT:{c} {}", panic_site(&o.stderr)),
                (None, Some(c)) => format!("EXIT:{c} {:016x}", f.0),
                (None, None) => "ABORT EXIT:?".into(),
            }
        }
    }
}

static BATCH_SEQ: std::sync::atomic::AtomicU64 = std::sync::atomic::AtomicU64::new(0);

/// Run the CLI once over many input files (`succinctly <args…> f0 f1 …`) and bisect when the
/// process crashes (or, for tools that stop at the first erroring file, when it exits non-zero), so
/// that one process start is shared by many inputs (a process start costs ~150 ms on this host).
/// Returns `(worst normal exit code, spawns, first crashing input with its classification)`.
pub fn cli_batch(args: &[&str], inputs: &[Vec<u8>], stops_on_error: bool, secs: u64) -> String {
    let Ok(bin) = std::env::var("SV_CLI") else {
        return "NOCLI".into();
    };
    if !std::path::Path::new(&bin).exists() {
        return "NOCLI".into();
    }
    let dir = std::env::temp_dir().join(format!(
        "svh-{}-{}",
        std::process::id(),
        BATCH_SEQ.fetch_add(1, std::sync::atomic::Ordering::Relaxed)
    ));
    if std::fs::create_dir_all(&dir).is_err() {
        return "HARNESS-ERROR tmpdir".into();
    }
    let mut paths = Vec::new();
    for (i, t) in inputs.iter().enumerate() {
        let p = dir.join(format!("in{i:05}"));
        if std::fs::write(&p, t).is_err() {
            return "HARNESS-ERROR tmpfile".into();
        }
        paths.push(p);
    }
    let mut spawns = 0usize;
    let mut worst = 0i32;
    let mut bad: Option<(usize, String)> = None;
    // explicit work list of index ranges
    let mut work = vec![(0usize, inputs.len())];
    while let Some((lo, hi)) = work.pop() {
        if lo >= hi || bad.is_some() {
            continue;
        }
        let mut cmd = std::process::Command::new(&bin);
        cmd.args(args);
        for p in &paths[lo..hi] {
            cmd.arg(p);
        }
        cmd.env("NO_COLOR", "1").env("TZ", "UTC").env("HOME", "/nonexistent").env_remove("RUST_BACKTRACE");
        spawns += 1;
        let class = match run_child(cmd, b"", secs) {
            Err(e) => return format!("HARNESS-ERROR {e}"),
            Ok(o) if o.timed_out => Err("TIMEOUT".to_string()),
            Ok(o) => match (o.signal, o.code) {
                (Some(s), _) => Err(format!("ABORT SIGNAL:{s} {}", panic_site(&o.stderr))),
                (None, Some(101)) => Err(format!("PANIC EXIT:101 {}", panic_site(&o.stderr))),
                (None, Some(c)) if c == 134 || c == 137 || c == 139 => Err(format!("ABORT EXIT:{c} {}", panic_site(&o.stderr))),
                (None, Some(c)) => Ok(c),
                (None, None) => Err("ABORT EXIT:?".to_string()),
            },
        };
        match class {
            Ok(0) => {}
            Ok(c) => {
                worst = worst.max(c);
                if stops_on_error && hi - lo > 1 {
                    let mid = lo + (hi - lo) / 2;
                    work.push((mid, hi));
                    work.push((lo, mid));
                }
            }
            Err(what) => {
                if hi - lo == 1 {
                    bad = Some((lo, what));
                } else {
                    let mid = lo + (hi - lo) / 2;
                    work.push((mid, hi));
                    work.push((lo, mid));
                }
            }
        }
    }
    let _ = std::fs::remove_dir_all(&dir);
    match bad {
        Some((i, what)) => format!("{what} @{} {}", i, hex_bytes(&inputs[i])),
        None => format!("EXIT:{worst} n={} spawns={spawns}", inputs.len()),
    }
}

// ------------------------------------------------------------------------------------------------
// modelled part: the JSON value-access layer at an arbitrary offset
// ------------------------------------------------------------------------------------------------

fn jerr(e: JsonError) -> &'static str {
    match e {
        JsonError::InvalidUtf8 => "E:utf8",
        JsonError::InvalidNumber => "E:number",
        JsonError::InvalidEscape => "E:escape",
        JsonError::InvalidUnicodeEscape => "E:unicode",
    }
}

fn caught<F: FnOnce() -> String>(f: F) -> String {
    match std::panic::catch_unwind(std::panic::AssertUnwindSafe(f)) {
        Ok(s) => s,
        Err(_) => "PANIC".into(),
    }
}

/// A cursor whose text position is `start`: IB has the single bit `start`, BP is `()`.
fn with_cursor_at<R>(text: &[u8], start: usize, f: impl FnOnce(JsonCursor<'_, Vec<u64>>) -> R) -> R {
    let words = text.len().div_ceil(64).max(1);
    let mut ib = vec![0u64; words];
    ib[start / 64] |= 1u64 << (start % 64);
    let idx = JsonIndex::from_parts(ib, text.len(), vec![0b01u64], 2);
    f(JsonCursor::from_bp_position(&idx, text, 0))
}

/// `acc <text> <start>`: every accessor of the value-access layer for a node placed at `start`.
fn acc(text: &[u8], start: usize) -> String {
    if start >= text.len() {
        return "BAD-START".into();
    }
    let s = JsonString::verif_at(text, start);
    let n = JsonNumber::verif_at(text, start);
    let raw = caught(|| hex_bytes(s.raw_bytes()));
    let rae = caught(|| {
        let (b, e) = s.raw_and_escaped();
        format!("{}:{}", hex_bytes(b), e as u8)
    });
    let st = caught(|| match s.as_str() {
        Ok(c) => hex_bytes(c.as_bytes()),
        Err(e) => jerr(e).into(),
    });
    let num = caught(|| hex_bytes(n.raw_bytes()));
    let span = caught(|| succinctly::verif_hooks::verif_nested_number_span(text, start).to_string());
    let (kind, tr, rb) = with_cursor_at(text, start, |c| {
        let kind = caught(|| {
            match c.value() {
                StandardJson::Object(_) => "obj",
                StandardJson::Array(_) => "arr",
                StandardJson::String(_) => "str",
                StandardJson::Number(_) => "num",
                StandardJson::Bool(true) => "true",
                StandardJson::Bool(false) => "false",
                StandardJson::Null => "null",
                StandardJson::Error(_) => "err",
            }
            .to_string()
        });
        let tr = caught(|| match c.text_range() {
            Some((a, b)) => format!("{a}..{b}"),
            None => "-".into(),
        });
        let rb = caught(|| match c.raw_bytes() {
            Some(b) => hex_bytes(b),
            None => "none".into(),
        });
        (kind, tr, rb)
    });
    format!("raw={raw};rae={rae};str={st};num={num};span={span};kind={kind};range={tr};bytes={rb}")
}

/// `esc <bytes>`: `decode_escapes` on an arbitrary byte string (not only what `as_str` passes).
fn esc(bytes: &[u8]) -> String {
    caught(|| match succinctly::verif_hooks::verif_decode_escapes(bytes) {
        Ok(s) => hex_bytes(s.as_bytes()),
        Err(e) => jerr(e).into(),
    })
}

/// `hex4 <bytes>`: `parse_hex4`.
fn hex4(bytes: &[u8]) -> String {
    caught(|| match succinctly::verif_hooks::verif_parse_hex4(bytes) {
        Ok(v) => v.to_string(),
        Err(e) => jerr(e).into(),
    })
}

/// `dsvf <text> <markers> <newlines> <pos>`: `DsvCursor::current_field` and one `next_field` step
/// over an index with *arbitrary* marker/newline bit sets (positions < len), cursor at `pos`.
fn dsvf(text: &[u8], markers: &[u64], newlines: &[u64]) -> String {
    use succinctly::dsv::{DsvCursor, DsvIndex};
    let words = text.len().div_ceil(64);
    let mk = |ps: &[u64]| {
        let mut v = vec![0u64; words];
        for &p in ps {
            if (p as usize) < text.len() {
                v[p as usize / 64] |= 1 << (p % 64);
            }
        }
        v
    };
    // DsvIndexLightweight is reachable only through the crate's own builders; build the index from a
    // synthetic text instead: a text with delimiter bytes exactly at `markers` and newline bytes at
    // `newlines` yields that bit set under the scalar builder (no quotes).
    let _ = (mk(markers), mk(newlines));
    let mut synth = vec![b'x'; text.len()];
    for &p in markers {
        if (p as usize) < synth.len() {
            synth[p as usize] = b',';
        }
    }
    for &p in newlines {
        if (p as usize) < synth.len() {
            synth[p as usize] = b'\n';
        }
    }
    let idx: DsvIndex = succinctly::dsv::build_index_scalar(&synth, &succinctly::dsv::DsvConfig::default());
    let mut out = Vec::new();
    let mut cur = DsvCursor::new(text, &idx);
    let mut guard = 0usize;
    loop {
        let f = caught(|| hex_bytes(cur.current_field()));
        out.push(format!("{}:{}", cur.position(), f));
        if f == "PANIC" {
            break;
        }
        let more = match std::panic::catch_unwind(std::panic::AssertUnwindSafe(|| {
            let mut c = cur;
            let m = c.next_field();
            (c, m)
        })) {
            Ok((c, m)) => {
                cur = c;
                m
            }
            Err(_) => {
                out.push("PANIC".into());
                break;
            }
        };
        guard += 1;
        if !more || guard > text.len() + 2 {
            break;
        }
    }
    out.join(",")
}

// ------------------------------------------------------------------------------------------------
// monitored part: full traversals
// ------------------------------------------------------------------------------------------------

const NODE_BUDGET: usize = 200_000;

fn json_value(h: &mut Fnv, v: &StandardJson<'_, Vec<u64>>, budget: &mut usize) {
    h.bytes(v.type_name().as_bytes());
    h.num(v.is_null() as u64 + 2 * v.is_error() as u64 + 4 * v.is_iterable() as u64);
    if let Some(m) = v.error_message() {
        h.bytes(m.as_bytes());
    }
    if let Some(b) = DocumentValue::as_bool(v) {
        h.num(b as u64);
    }
    if let Some(i) = DocumentValue::as_i64(v) {
        h.num(i as u64);
    }
    if let Some(f) = DocumentValue::as_f64(v) {
        h.num(f.to_bits());
    }
    if let Some(l) = v.number_literal() {
        h.bytes(l.as_bytes());
    }
    if let Some(s) = DocumentValue::as_str(v) {
        h.bytes(s.as_bytes());
    }
    match v {
        StandardJson::String(s) => {
            h.bytes(s.raw_bytes());
            let (r, e) = s.raw_and_escaped();
            h.bytes(r);
            h.num(e as u64);
            match s.as_str() {
                Ok(c) => h.bytes(c.as_bytes()),
                Err(e) => h.bytes(jerr(e).as_bytes()),
            }
        }
        StandardJson::Number(n) => {
            h.bytes(n.raw_bytes());
            match n.as_i64() {
                Ok(i) => h.num(i as u64),
                Err(e) => h.bytes(jerr(e).as_bytes()),
            }
            match n.as_f64() {
                Ok(f) => h.num(f.to_bits()),
                Err(e) => h.bytes(jerr(e).as_bytes()),
            }
        }
        StandardJson::Object(fields) => {
            h.num(fields.is_empty() as u64);
            let mut first_key: Option<String> = None;
            let mut n = 0usize;
            for f in *fields {
                if *budget == 0 {
                    break;
                }
                *budget -= 1;
                n += 1;
                let k = f.key();
                if let StandardJson::String(ks) = &k {
                    h.bytes(ks.raw_bytes());
                    if let Ok(c) = ks.as_str() {
                        if first_key.is_none() {
                            first_key = Some(c.into_owned());
                        }
                    }
                }
                h.bytes(k.type_name().as_bytes());
                h.bytes(f.value().type_name().as_bytes());
                h.num(f.key_cursor().bp_position() as u64);
                h.num(f.value_cursor().bp_position() as u64);
            }
            h.num(n as u64);
            if let Some(k) = first_key {
                h.num(fields.find(&k).is_some() as u64);
                h.num(fields.find_cursor(&k).map(|c| c.bp_position()).unwrap_or(0) as u64);
            }
            h.num(fields.find("\u{0}no-such-key").is_some() as u64);
            let mut cur = *fields;
            let mut steps = 0;
            while let Some((f, rest)) = cur.uncons() {
                h.num(f.value_cursor().bp_position() as u64);
                cur = rest;
                steps += 1;
                if steps > 64 {
                    break;
                }
            }
        }
        StandardJson::Array(elems) => {
            h.num(elems.is_empty() as u64);
            let mut n = 0usize;
            for e in *elems {
                if *budget == 0 {
                    break;
                }
                *budget -= 1;
                n += 1;
                h.bytes(e.type_name().as_bytes());
            }
            h.num(n as u64);
            for i in [0usize, 1, n / 2, n.saturating_sub(1), n, n + 1, usize::MAX] {
                h.num(elems.get(i).map(|v| v.type_name().len()).unwrap_or(99) as u64);
                h.num(elems.get_fast(i).map(|v| v.type_name().len()).unwrap_or(99) as u64);
            }
            let mut k = 0;
            for c in elems.cursor_iter() {
                h.num(c.bp_position() as u64);
                k += 1;
                if k > 64 {
                    break;
                }
            }
            if let Some((c, rest)) = elems.uncons_cursor() {
                h.num(c.bp_position() as u64);
                h.num(rest.is_empty() as u64);
            }
        }
        _ => {}
    }
}

fn json_walk(h: &mut Fnv, text: &[u8], root: JsonCursor<'_, Vec<u64>>) {
    let mut budget = NODE_BUDGET;
    let mut stack = vec![root];
    let mut visited = 0usize;
    while let Some(c) = stack.pop() {
        visited += 1;
        if visited > NODE_BUDGET {
            break;
        }
        h.num(c.bp_position() as u64);
        h.num(c.is_container() as u64);
        let tp = c.text_position();
        h.num(tp.map(|p| p as u64 + 1).unwrap_or(0));
        if visited <= 2000 {
            h.num(c.line() as u64);
            h.num(c.column() as u64);
        }
        // `text_range` / `raw_bytes` scan the whole value (O(size) by design): on every node of a
        // 10^5-deep nest that is quadratic, so beyond the first 2000 nodes only every 97th is scanned
        if visited <= 2000 || visited % 97 == 0 {
            if let Some((a, b)) = c.text_range() {
                h.num(a as u64);
                h.num(b as u64);
                if visited <= 2000 || b - a < 256 {
                    h.bytes(&text[a..b]);
                }
            }
            match c.raw_bytes() {
                Some(b) if visited <= 2000 || b.len() < 256 => h.bytes(b),
                Some(b) => h.num(b.len() as u64),
                None => h.num(0),
            }
        }
        h.num(c.parent().map(|p| p.bp_position() as u64 + 1).unwrap_or(0));
        if let Some(p) = tp {
            if visited <= 500 {
                h.num(c.cursor_at_offset(p).map(|x| x.bp_position() as u64 + 1).unwrap_or(0));
                h.num(c.cursor_at_offset(p + 1).map(|x| x.bp_position() as u64 + 1).unwrap_or(0));
                h.num(c.cursor_at_position(c.line(), c.column()).map(|x| x.bp_position() as u64 + 1).unwrap_or(0));
            }
        }
        let v = c.value();
        json_value(h, &v, &mut budget);
        let mut kids: Vec<_> = c.children().take(NODE_BUDGET).collect();
        kids.reverse();
        stack.extend(kids);
    }
    h.num(visited as u64);
}

const JQ_PROGRAMS: &[&str] = &[
    ".", "..", "[..]", "tojson", "tostring", "keys", ".[]", "to_entries", "[paths]", "length", "type",
    ".[0]", ".a", "map(.)", "[.[]?]", "tostream", "[leaf_paths]", "add", "sort", "unique", "min", "flatten",
    "ascii_downcase", "explode", "tonumber", "@json", "@text", "@csv", "@base64", "@uri", "@html", "@sh",
    ". == .", "[.[]?|tojson]", "walk(.)", "del(.[0]?)", "to_entries?", "with_entries(.)?", "getpath([\"a\",0])",
    "[.. | scalars]", "input_line_number", "$__loc__", "ltrimstr(\"a\")", "splits(\"a\")?", "test(\"a\")?", "fromjson?",
    "tojson|fromjson", "[limit(5;..)]", "first(..)", "any", "all", "group_by(.)?", "indices(1)?", "has(0)?", "has(\"a\")?",
    "@base64d?", "ascii", "implode?", "[splits(\", \")]?", "sub(\"a\";\"b\")?", "env|length", "input?",
    "paths(type == \"number\")", "[.[]?|numbers]", "..|numbers|floor?", "..|strings|length", "tojson|length", "@json \"x\\(.)y\"",
];

/// Three fixed programs plus six chosen by a hash of the input (every program is used on ~9% of the inputs).
fn pick_programs(text: &[u8]) -> Vec<&'static str> {
    let mut h = Fnv::new();
    h.bytes(text);
    let mut v = vec![".", "[..]", "tojson"];
    let mut x = h.0;
    for _ in 0..6 {
        v.push(JQ_PROGRAMS[(x % JQ_PROGRAMS.len() as u64) as usize]);
        x = x.wrapping_mul(0x9E37_79B9_7F4A_7C15).rotate_left(23) ^ 0x5bd1e995;
    }
    v
}

fn owned_digest(h: &mut Fnv, vs: &[succinctly::jq::OwnedValue]) {
    for v in vs {
        h.bytes(v.to_json().as_bytes());
    }
}

fn json_full(text: &[u8]) -> String {
    use succinctly::jq::{self, eval_generic, JqSemantics, QueryResult};
    let mut h = Fnv::new();
    let valid = succinctly::json::validate::validate(text).is_ok();
    h.num(valid as u64);
    let idx = JsonIndex::build(text);
    h.num(idx.ib_len() as u64);
    let root = idx.root(text);
    json_walk(&mut h, text, root);
    // printing through every route
    for (indent, sort) in [(IndentSpec::COMPACT, false), (IndentSpec::spaces(2), true), (IndentSpec { width: 1, unit: '\t' }, false)] {
        let mut s = String::new();
        let r = DocumentCursor::stream_json(&root, &mut s, indent, sort);
        h.num(r.is_ok() as u64);
        h.bytes(s.as_bytes());
        let mut y = String::new();
        let r = DocumentCursor::stream_yaml(&root, &mut y, indent, sort);
        h.num(r.is_ok() as u64);
        h.bytes(y.as_bytes());
    }
    let owned = eval_generic::to_owned(&root.value());
    h.bytes(owned.to_json().as_bytes());
    let owned_c = eval_generic::to_owned_cursor(&root);
    h.bytes(owned_c.to_json().as_bytes());
    // jq programs through both evaluators
    for p in pick_programs(text) {
        let Ok(expr) = jq::parse(p) else {
            h.bytes(b"parse-error");
            continue;
        };
        let r: QueryResult<Vec<u64>> = jq::eval::<Vec<u64>, JqSemantics>(&expr, root);
        match r {
            QueryResult::OneCursor(c) => {
                h.bytes(c.raw_bytes().unwrap_or(b"-"));
                owned_digest(&mut h, &[jq::eval_generic::to_owned(&c.value())]);
            }
            QueryResult::Error(e) => h.bytes(e.to_string().as_bytes()),
            other => {
                h.num(other.is_error() as u64);
                owned_digest(&mut h, &other.collect_owned());
            }
        }
        let g = eval_generic::eval_with_cursor(&expr, root);
        let mut s = String::new();
        let r = g.stream_json(&mut s, IndentSpec::spaces(2), false, |o| {
            use core::fmt::Write;
            o.write_char('\n')
        });
        h.num(r.is_ok() as u64);
        h.bytes(s.as_bytes());
        let mut y = String::new();
        let r = g.stream_yaml(&mut y, IndentSpec::spaces(2), false, |o| {
            use core::fmt::Write;
            o.write_char('\n')
        });
        h.num(r.is_ok() as u64);
        h.bytes(y.as_bytes());
        owned_digest(&mut h, &g.collect_owned());
    }
    // the simple-cursor index on the same bytes
    {
        let sidx = succinctly::json::SimpleJsonIndex::build(text);
        let n = sidx.structural_count();
        h.num(n as u64);
        for k in 0..n.min(5000) {
            if let Some(p) = sidx.structural_pos(k) {
                h.num(p as u64);
                h.num(sidx.structural_index(p).map(|x| x as u64 + 1).unwrap_or(0));
                h.num(sidx.find_close(text, p).map(|x| x as u64 + 1).unwrap_or(0));
                h.num(sidx.skip_value(text, p).map(|x| x as u64 + 1).unwrap_or(0));
                if k < 200 {
                    h.num(sidx.children(text, p).map(|c| c.take(1000).count() as u64 + 1).unwrap_or(0));
                }
            }
        }
        h.num(sidx.structural_positions(text).take(NODE_BUDGET).count() as u64);
    }
    format!("OK {:016x} v={}", h.0, valid as u8)
}

fn yaml_string(h: &mut Fnv, s: &YamlString<'_>) {
    h.num(s.is_unquoted() as u64);
    h.bytes(s.raw_bytes());
    match s.as_str() {
        Ok(c) => h.bytes(c.as_bytes()),
        Err(e) => h.bytes(e.to_string().as_bytes()),
    }
}

fn yaml_walk(h: &mut Fnv, root: YamlCursor<'_, Vec<u64>>) {
    let mut stack = vec![(root, 0usize)];
    let mut visited = 0usize;
    while let Some((c, alias_depth)) = stack.pop() {
        visited += 1;
        if visited > NODE_BUDGET {
            break;
        }
        h.num(c.bp_position() as u64);
        h.num(c.is_container() as u64);
        h.num(c.text_position().map(|p| p as u64 + 1).unwrap_or(0));
        h.num(c.text_end_position().map(|p| p as u64 + 1).unwrap_or(0));
        h.bytes(c.raw_bytes().unwrap_or(b"-"));
        h.bytes(c.anchor().unwrap_or("-").as_bytes());
        h.bytes(c.explicit_tag().unwrap_or("-").as_bytes());
        h.bytes(c.line_comment_raw().unwrap_or("-").as_bytes());
        h.bytes(c.line_comment().unwrap_or("-").as_bytes());
        h.num(c.line_comment_checked().is_ok() as u64);
        h.bytes(c.alias().unwrap_or("-").as_bytes());
        h.num(c.is_alias() as u64);
        if visited <= 2000 {
            h.num(c.line() as u64);
            h.num(c.column() as u64);
            h.num(c.document_index().map(|d| d as u64 + 1).unwrap_or(0));
        }
        h.bytes(c.style().as_bytes());
        h.bytes(c.tag().as_bytes());
        h.bytes(c.kind().as_bytes());
        h.num(c.parent().map(|p| p.bp_position() as u64 + 1).unwrap_or(0));
        h.num(c.resolve_alias_target_cursor().map(|p| p.bp_position() as u64 + 1).unwrap_or(0));
        if let Some(p) = c.text_position() {
            if visited <= 500 {
                h.num(c.cursor_at_offset(p).map(|x| x.bp_position() as u64 + 1).unwrap_or(0));
                h.num(c.cursor_at_position(c.line(), c.column()).map(|x| x.bp_position() as u64 + 1).unwrap_or(0));
            }
        }
        let v = c.value();
        h.bytes(v.type_name().as_bytes());
        h.num(v.is_null() as u64 + 2 * v.is_error() as u64);
        if let Some(b) = DocumentValue::as_bool(&v) {
            h.num(b as u64);
        }
        if let Some(i) = DocumentValue::as_i64(&v) {
            h.num(i as u64);
        }
        if let Some(f) = DocumentValue::as_f64(&v) {
            h.num(f.to_bits());
        }
        if let Some(l) = v.number_literal() {
            h.bytes(l.as_bytes());
        }
        if let Some(s) = DocumentValue::as_str(&v) {
            h.bytes(s.as_bytes());
        }
        h.bytes(v.key_string().as_bytes());
        match &v {
            YamlValue::String(s) => yaml_string(h, s),
            YamlValue::Mapping(fields) => {
                h.num(fields.is_empty() as u64);
                let mut n = 0usize;
                let mut first_key = None;
                for f in fields.clone() {
                    n += 1;
                    if n > 10_000 {
                        break;
                    }
                    let k = f.key();
                    if let YamlValue::String(s) = &k {
                        yaml_string(h, s);
                        if first_key.is_none() {
                            first_key = s.as_str().ok().map(|c| c.into_owned());
                        }
                    }
                    h.bytes(f.value().type_name().as_bytes());
                    h.num(f.key_cursor().bp_position() as u64);
                    h.num(f.value_cursor().bp_position() as u64);
                }
                if let Some(k) = first_key {
                    h.num(fields.find(&k).is_some() as u64);
                    h.num(fields.find_cursor(&k).is_some() as u64);
                }
                h.num(fields.find("\u{0}none").is_some() as u64);
            }
            YamlValue::Sequence(elems) => {
                h.num(elems.is_empty() as u64);
                let mut n = 0usize;
                for e in *elems {
                    n += 1;
                    if n > 10_000 {
                        break;
                    }
                    h.bytes(e.type_name().as_bytes());
                }
                for i in [0usize, 1, n, n + 1, usize::MAX] {
                    h.num(elems.get(i).is_some() as u64);
                }
                if let Some((c2, _)) = elems.uncons_cursor() {
                    h.num(c2.bp_position() as u64);
                }
                if let Some((c2, _)) = elems.uncons_resolved_cursor() {
                    h.num(c2.bp_position() as u64);
                }
            }
            YamlValue::Alias { anchor_name, target } => {
                h.bytes(anchor_name.as_bytes());
                if let Some(t) = target {
                    if alias_depth < 4 {
                        stack.push((*t, alias_depth + 1));
                    }
                }
            }
            _ => {}
        }
        let mut kids: Vec<_> = c.children().take(NODE_BUDGET).map(|k| (k, alias_depth)).collect();
        kids.reverse();
        stack.extend(kids);
    }
    h.num(visited as u64);
}

fn yaml_full(text: &[u8]) -> String {
    use succinctly::jq::{self, eval_generic};
    let mut h = Fnv::new();
    let valid = succinctly::yaml::validate::validate(text).is_ok();
    h.num(valid as u64);
    let idx = match YamlIndex::build(text) {
        Ok(i) => i,
        Err(e) => {
            h.bytes(e.to_string().as_bytes());
            return format!("ERR {:016x} v={}", h.0, valid as u8);
        }
    };
    let root = idx.root(text);
    yaml_walk(&mut h, root);
    h.bytes(root.to_json().as_bytes());
    h.bytes(root.to_json_document().as_bytes());
    for (indent, sort) in [(IndentSpec::COMPACT, false), (IndentSpec::spaces(2), true), (IndentSpec { width: 1, unit: '\t' }, false)] {
        let mut s = String::new();
        h.num(root.stream_json(&mut s, indent, sort).is_ok() as u64);
        h.bytes(s.as_bytes());
        let mut s = String::new();
        h.num(root.stream_json_document(&mut s, indent, sort).is_ok() as u64);
        h.bytes(s.as_bytes());
        let mut y = String::new();
        h.num(root.stream_yaml(&mut y, indent, sort).is_ok() as u64);
        h.bytes(y.as_bytes());
        let mut y = String::new();
        h.num(root.stream_yaml_document(&mut y, indent, sort).is_ok() as u64);
        h.bytes(y.as_bytes());
        let mut y = String::new();
        h.num(root.stream_yaml_as_document(&mut y, indent, sort).is_ok() as u64);
        h.bytes(y.as_bytes());
    }
    let owned = eval_generic::to_owned(&root.value());
    h.bytes(owned.to_json().as_bytes());
    for p in pick_programs(text) {
        let Ok(expr) = jq::parse_with_mode(p, jq::ParserMode::Yq) else {
            h.bytes(b"parse-error");
            continue;
        };
        let g = eval_generic::eval_with_cursor_using::<jq::YqSemantics, _>(&expr, root);
        let mut s = String::new();
        let r = g.stream_json(&mut s, IndentSpec::spaces(2), false, |o| {
            use core::fmt::Write;
            o.write_char('\n')
        });
        h.num(r.is_ok() as u64);
        h.bytes(s.as_bytes());
        let mut y = String::new();
        let r = g.stream_yaml(&mut y, IndentSpec::spaces(2), false, |o| {
            use core::fmt::Write;
            o.write_char('\n')
        });
        h.num(r.is_ok() as u64);
        h.bytes(y.as_bytes());
        owned_digest(&mut h, &g.collect_owned());
    }
    format!("OK {:016x} v={}", h.0, valid as u8)
}

fn dsv_full(text: &[u8], delim: u8, quote: u8) -> String {
    use succinctly::dsv::{self, DsvConfig, DsvIndex, DsvRef};
    let cfg = DsvConfig::default().with_delimiter(delim).with_quote_char(quote);
    let mut engines: Vec<(&str, DsvIndex)> = vec![
        ("scalar", dsv::build_index_scalar(text, &cfg)),
        ("dispatch", dsv::build_index(text, &cfg)),
        ("sse2", dsv::simd::sse2::build_index_simd(text, &cfg)),
    ];
    if std::arch::is_x86_feature_detected!("avx2") {
        engines.push(("avx2", dsv::simd::avx2::build_index_simd(text, &cfg)));
        if std::arch::is_x86_feature_detected!("bmi2") {
            engines.push(("bmi2", dsv::simd::bmi2::build_index_simd(text, &cfg)));
        }
    }
    let mut out = Vec::new();
    for (name, idx) in &engines {
        let mut h = Fnv::new();
        let d = DsvRef::new(text, idx);
        h.num(d.row_count() as u64);
        h.num(idx.marker_count() as u64);
        let mut nrows = 0usize;
        for row in d.rows() {
            nrows += 1;
            if nrows > 20_000 {
                break;
            }
            let mut nf = 0usize;
            for f in row.fields() {
                nf += 1;
                if nf > 20_000 {
                    break;
                }
                h.bytes(f);
            }
            for c in [0usize, 1, nf.saturating_sub(1), nf, nf + 1] {
                match row.get(c) {
                    Some(f) => h.bytes(f),
                    None => h.num(0),
                }
            }
        }
        // random access
        for n in [0usize, 1, 2, nrows / 2, nrows.saturating_sub(1), nrows, nrows + 1, usize::MAX / 2] {
            match d.row(n) {
                Some(r) => {
                    for f in r.fields().take(64) {
                        h.bytes(f);
                    }
                    h.num(r.get(0).map(|f| f.len() as u64 + 1).unwrap_or(0));
                }
                None => h.num(0),
            }
        }
        // cursor API
        let mut c = d.cursor();
        let mut steps = 0usize;
        loop {
            h.bytes(c.current_field());
            h.num(c.position() as u64);
            #[allow(clippy::collapsible_if)]
            if !c.next_field() {
                break;
            }
            steps += 1;
            if steps > 50_000 {
                break;
            }
        }
        let mut c = d.cursor();
        while c.next_row() {
            h.num(c.position() as u64);
            steps += 1;
            if steps > 100_000 {
                break;
            }
        }
        for p in [0usize, 1, text.len() / 2, text.len(), text.len() + 1, usize::MAX] {
            h.num(idx.markers_rank1(p) as u64);
            h.num(idx.newlines_rank1(p) as u64);
            h.num(idx.markers_select1(p).map(|x| x as u64 + 1).unwrap_or(0));
            h.num(idx.newlines_select1(p).map(|x| x as u64 + 1).unwrap_or(0));
        }
        out.push(format!("{name}={:016x}", h.0));
    }
    // owned API
    let d = dsv::Dsv::parse_with_config(text, &cfg);
    let mut h = Fnv::new();
    for r in d.rows().take(1000) {
        for f in r.fields().take(1000) {
            h.bytes(f);
        }
    }
    format!("OK {} owned={:016x}", out.join(","), h.0)
}

fn jq_parse(src: &str) -> String {
    use succinctly::jq::{parse, parse_program, parse_program_with_mode, parse_with_mode, ParserMode};
    let a = parse(src).is_ok();
    let b = parse_program(src).is_ok();
    let c = parse_with_mode(src, ParserMode::Yq).is_ok();
    let d = parse_program_with_mode(src, ParserMode::Yq).is_ok();
    format!("{} {}{}{}{}", if a || b || c || d { "OK" } else { "ERR" }, a as u8, b as u8, c as u8, d as u8)
}

pub fn exec(a: &[&str]) -> String {
    match a[0] {
        "acc" => {
            let t = parse_bytes(a[1]);
            acc(&t, num(a[2]))
        }
        "esc" => esc(&parse_bytes(a[1])),
        "hex4" => hex4(&parse_bytes(a[1])),
        "dsvf" => {
            let t = parse_bytes(a[1]);
            let m: Vec<u64> = if a[2] == "-" { vec![] } else { a[2].split(',').map(num64).collect() };
            let n: Vec<u64> = if a[3] == "-" { vec![] } else { a[3].split(',').map(num64).collect() };
            dsvf(&t, &m, &n)
        }
        "json" => {
            let t = parse_bytes(a[1]);
            guarded(GUARD_SECS, move || json_full(&t))
        }
        "yaml" => {
            let t = parse_bytes(a[1]);
            guarded(GUARD_SECS, move || yaml_full(&t))
        }
        "dsv" => {
            let t = parse_bytes(a[1]);
            let (d, q) = (num(a[2]) as u8, num(a[3]) as u8);
            guarded(GUARD_SECS, move || dsv_full(&t, d, q))
        }
        "jqp" => {
            let t = parse_bytes(a[1]);
            match String::from_utf8(t) {
                Ok(s) => guarded(GUARD_SECS, move || jq_parse(&s)),
                Err(_) => "BAD-UTF8".into(),
            }
        }
        // iso <op> <args…>: the same request in a child process (abort / stack overflow visible)
        "iso" => isolated(&format!("C19 {}", a[1..].join(" ")), 2 * GUARD_SECS, None),
        // cli <jq|yq|yqj|jqc|yqy> <bytes>
        "cli" => {
            let t = parse_bytes(a[2]);
            let args: &[&str] = match a[1] {
                "jq" => &["jq", "."],
                "jqc" => &["jq", "-c", "."],
                "yq" => &["yq", "."],
                "yqj" => &["yq", "-o", "json", "."],
                _ => return "BAD-OP".into(),
            };
            cli(args, &t, 2 * GUARD_SECS, None)
        }
        // clib <jq|jqc|yq|yqj> <bytes>,<bytes>,…: many inputs as files, one process (bisected on a crash)
        "clib" => {
            let inputs: Vec<Vec<u8>> = a[2].split(',').map(parse_bytes).collect();
            let (args, stops): (&[&str], bool) = match a[1] {
                "jq" => (&["jq", "."], false),
                "jqc" => (&["jq", "-c", "."], false),
                "yq" => (&["yq", "."], true),
                "yqj" => (&["yq", "-o", "json", "."], true),
                _ => return "BAD-OP".into(),
            };
            cli_batch(args, &inputs, stops, 3 * GUARD_SECS)
        }
        // clip <jq|yq> <program bytes>: program parser through the CLI on `null`
        "clip" => {
            let p = parse_bytes(a[2]);
            let Ok(p) = String::from_utf8(p) else { return "BAD-UTF8".into() };
            if p.contains('\0') {
                return "EXIT:2 nul".into();
            }
            let tool = if a[1] == "yq" { "yq" } else { "jq" };
            cli(&[tool, "--", &p], b"null\n", 2 * GUARD_SECS, None)
        }
        _ => "BAD-OP".into(),
    }
}

// ------------------------------------------------------------------------------------------------
// generators
// ------------------------------------------------------------------------------------------------

const JSON_TOKENS: &[&str] = &[
    "{", "}", "[", "]", "\"", ",", ":", "\\", " ", "\n", "\t", "0", "1", "9", "-", "+", ".", "e", "E", "true", "false",
    "null", "tru", "nul", "\"a\"", "\"\\\"", "\\u", "\\uD800", "\\uDC00", "\\u00e9", "1e5", "-0", "1.5", "a", "\"k\":",
    "\\\"", "\\\\", "é", "\u{1F600}", "\r", "\\n", "\"\"", "[]", "{}", "/", "*",
];

const YAML_TOKENS: &[&str] = &[
    ":", "-", "?", "#", "&", "*", "!", "|", ">", "'", "\"", "%", "@", "[", "]", "{", "}", ",", " ", "  ", "    ", "\n",
    "\t", "\r", "\r\n", "a", "b", "key", ": ", "- ", "? ", "&a ", "*a", "!!str ", "!t ", "|-", ">+", "|2", "---", "...", "<<", "<<: ",
    "~", "null", "true", "1", "0x1F", "1e3", ".inf", "\\", "\\n", "\\x", "\\u12", "''", "é", "\u{2028}", "\u{FEFF}", "`", "=",
    "%YAML 1.2", "%TAG ! tag:x,2000:", "!<", ">", "#c", " #c", "\n  ", "\n- ", "\n  - ", "\na: ", "\n\n",
];

pub const VALID_JSON: &[&str] = &[
    r#"{"a":1,"b":[true,false,null],"c":{"d":"e\n\u00e9\ud83d\ude00","f":-1.5e-3}}"#,
    r#"[1,2,3,"x",{"k":[]},{},[[[]]],"\\\"",0,-0,1e400,123456789012345678901234567890]"#,
    r#""just a string \u0041""#,
    r#"  {"key with spaces" : "value" , "n" : 12.50 , "arr" : [ 1 , 2 ] }  "#,
    "{\"a\":{\"a\":{\"a\":{\"a\":[1,[2,[3,[4]]]]}}}}",
    "[\"\\ud800\",\"\\udc00\",\"\\ud800\\u0041\",\"\\ud83d\\ude00\"]",
    "123",
    "null",
    "{\"a\":\"\u{e9}\u{4e2d}\u{1F600}\",\"\u{e9}\":1}",
    "{\"dup\":1,\"dup\":2,\"\":3}\n{\"second\":\"doc\"}\n",
];

pub const VALID_YAML: &[&str] = &[
    "a: 1\nb:\n  - x\n  - y: 2\n    z: [1, 2, {k: v}]\nc: \"q\\n\\u00e9\"\nd: 'it''s'\n",
    "- &anc\n  k: v\n  l: w\n- *anc\n- <<: *anc\n  m: 1\n",
    "---\ntext: |\n  line1\n  line2\nfold: >-\n  a\n  b\n\nkeep: |+\n  x\n\n...\n---\nsecond: doc\n",
    "? complex key\n: value\n? [a, b]\n: c\n",
    "%YAML 1.2\n%TAG !e! tag:example.com,2000:\n---\n!!str 1: !e!x y\nt: !!int \"3\"\nu: !<tag:x> z\n",
    "key: value # comment\n# full line\nlist:\n- 1   # one\n- 2\nempty:\nnull1: ~\ntilde: null\n",
    "{a: [1, 2], b: {c: d}, \"e\": 'f'}\n",
    "a:\n  b:\n    c:\n      d:\n        - e\n        - f:\n            g: h\n",
    "str: plain multi\n  line scalar\n  continues\nnum: 0x1F\noct: 0o17\nflt: .inf\nneg: -.inf\nnan: .nan\nexp: 1e3\n",
    "\u{FEFF}bom: true\nuni: \u{e9}\u{4e2d}\u{1F600}\nesc: \"\\x41\\u0042\\U00000043\\N\\_\\L\\P\\e\\0\"\n",
    "- - - a\n    - b\n  - c\n- d\n",
    "a: &x [1, *x]\nb: *x\n",
];

pub const VALID_DSV: &[&str] = &[
    "a,b,c\n1,2,3\n",
    "name,quote\n\"Smith, J\",\"say \"\"hi\"\"\"\n\"multi\nline\",x\n",
    "a\tb\tc\r\n1\t2\t3\r\n",
    "x|y|z\n||\n|\n",
    "no newline at end,1",
];

fn soup(r: &mut Rng, toks: &[&str], max: u64) -> Vec<u8> {
    let n = r.range(0, max);
    let mut v = Vec::new();
    for _ in 0..n {
        v.extend_from_slice(r.pick(toks).as_bytes());
    }
    v
}

fn rand_bytes(r: &mut Rng, max: u64) -> Vec<u8> {
    let n = r.range(0, max);
    let mode = r.below(4);
    (0..n)
        .map(|_| match mode {
            0 => r.byte(),
            1 => *r.pick(b"{}[]\",:\\ \n0123456789-+.eEtfn'#&*!|>?%@\t\r"),
            2 => {
                if r.chance(1, 6) {
                    r.byte() | 0x80
                } else {
                    *r.pick(b"{}[]\",:\\ \nabc01-")
                }
            }
            _ => r.range(0x20, 0x7e) as u8,
        })
        .collect()
}

fn mutate(r: &mut Rng, base: &[u8]) -> Vec<u8> {
    let mut v = base.to_vec();
    if v.is_empty() {
        return v;
    }
    for _ in 0..r.range(1, 3) {
        let i = r.usize_below(v.len());
        match r.below(6) {
            0 => v[i] = r.byte(),
            1 => v[i] = *r.pick(b"{}[]\",:\\ \n-#&*!|>'?%\t"),
            2 => {
                v.remove(i);
            }
            3 => v.insert(i, *r.pick(b"{}[]\",:\\ \n-#&*!|>'?%\t\xff\xc0\xed\xa0\x80")),
            4 => v[i] ^= 1 << r.below(8),
            _ => {
                let j = r.usize_below(v.len());
                v.swap(i, j);
            }
        }
        if v.is_empty() {
            break;
        }
    }
    v
}

fn bad_utf8(r: &mut Rng, base: &[u8]) -> Vec<u8> {
    let seqs: &[&[u8]] = &[b"\xff", b"\xc0\xaf", b"\xed\xa0\x80", b"\xf4\x90\x80\x80", b"\xe2\x82", b"\x80", b"\xf0\x9f\x98", b"\xc3"];
    let mut v = base.to_vec();
    let i = r.usize_below(v.len() + 1);
    let s = r.pick(seqs);
    for (k, b) in s.iter().enumerate() {
        v.insert(i + k, *b);
    }
    v
}

/// Random syntactically valid JSON document.
pub fn gen_json(r: &mut Rng, depth: u32, out: &mut String) {
    let k = if depth == 0 { r.below(5) } else { r.below(8) };
    match k {
        0 => out.push_str(*r.pick(&["null", "true", "false"])),
        1 => out.push_str(*r.pick(&["0", "-0", "1", "-1", "12.5", "1e3", "-2.5E-2", "9007199254740993", "1e999", "0.1", "18446744073709551616"])),
        2 | 3 => gen_json_string(r, out),
        4 => out.push_str(&format!("{}", r.below(100000) as i64 - 50000)),
        5 | 6 => {
            out.push('[');
            let n = r.below(4);
            for i in 0..n {
                if i > 0 {
                    out.push(',');
                }
                gen_json(r, depth - 1, out);
            }
            out.push(']');
        }
        _ => {
            out.push('{');
            let n = r.below(4);
            for i in 0..n {
                if i > 0 {
                    out.push(',');
                }
                gen_json_string(r, out);
                out.push(':');
                if r.chance(1, 4) {
                    out.push(' ');
                }
                gen_json(r, depth - 1, out);
            }
            out.push('}');
        }
    }
}

pub fn gen_json_string(r: &mut Rng, out: &mut String) {
    out.push('"');
    for _ in 0..r.below(6) {
        out.push_str(*r.pick(&["a", "b", "key", " ", "\\n", "\\\"", "\\\\", "\\u00e9", "\\ud83d\\ude00", "é", "中", "😀", "\\/", "\\t", "0", "-"]));
    }
    out.push('"');
}

fn deep_docs(quick: bool) -> Vec<(&'static str, Vec<u8>)> {
    let mut v = Vec::new();
    let depths: &[usize] = if quick { &[257, 1000] } else { &[200, 257, 400, 1000, 5000, 20_000] };
    for &n in depths {
        v.push(("json", "[".repeat(n).into_bytes()));
        v.push(("json", format!("{}{}", "[".repeat(n), "]".repeat(n)).into_bytes()));
        v.push(("json", format!("{}1{}", "{\"a\":".repeat(n), "}".repeat(n)).into_bytes()));
        v.push(("yaml", "[".repeat(n).into_bytes()));
        v.push(("yaml", format!("{}{}", "[".repeat(n), "]".repeat(n)).into_bytes()));
        v.push(("yaml", format!("{}a{}", "{a: ".repeat(n), "}".repeat(n)).into_bytes()));
        v.push(("yaml", format!("{}x\n", "- ".repeat(n)).into_bytes()));
        if n <= 1000 {
            let mut s = String::new();
            for i in 0..n {
                s.push_str(&" ".repeat(i));
                s.push_str("a:\n");
            }
            v.push(("yaml", s.into_bytes()));
        }
        if !quick || n == 1000 {
            v.push(("json", "{\"a\":".repeat(n).into_bytes()));
            v.push(("yaml", "? ".repeat(n).into_bytes()));
            v.push(("yaml", "&a ".repeat(n).into_bytes()));
            v.push(("yaml", "!t ".repeat(n).into_bytes()));
            v.push(("yaml", "- ".repeat(n).into_bytes()));
        }
    }
    // very deep: only the shapes that reach recursion in the builders / printers
    let n = 100_000;
    if !quick {
        v.push(("json", format!("{}{}", "[".repeat(n), "]".repeat(n)).into_bytes()));
    }
    v.push(("json", format!("{}{}", "[".repeat(n / 10), "]".repeat(n / 10)).into_bytes()));
    v.push(("yaml", format!("{}x\n", "- ".repeat(n)).into_bytes()));
    v.push(("yaml", "[".repeat(n).into_bytes()));
    v
}

fn special_docs() -> Vec<Vec<u8>> {
    let mut v: Vec<Vec<u8>> = Vec::new();
    for s in [
        "[\"abc", "\"abc", "\"", "[\"", "{\"a", "{\"a\":\"", "[\"a\\", "[\"a\\\"", "\"\\", "[\"\\u", "[\"\\u12", "[\"\\ud800", "[\"\\ud800\\u", "[\"\\ud800\\udc0",
        "[\"\\udc00\"]", "[\"\\ud800\\u0041\"]", "[\"\\ud800\\ud800\"]", "[-", "[-]", "[.]", "[.5]", "[1.2.3]", "[1e]", "[1e+]", "[--1]", "[+1]", "[0x10]", "[1e999999999]",
        "[-1e-999999999]", "tru", "[tru]", "[nul", "fals", "n", "t", "f", "[t", "{", "}", "]", "[}", "{]", "{\"a\":}", "{:1}", "{,}", "[,]", "[1,]", "[1 2]", "{\"a\" 1}",
        "\u{FEFF}[1]", "[1]\u{0}", "\u{0}", "\n", " ", "", "[1]]", "{}}", "[[]", "{{}", "{\"a\":{\"b\":", "'a'", "[NaN]", "[Infinity]", "[-Infinity]", "nan",
        "[\"a\u{7}b\"]", "[\"\t\"]", "[\"a\nb\"]", "1 2 3", "1,2", "{\"a\":1}{\"b\":2}", "[1][2]", "\"a\"\"b\"", "truefalse", "nullnull", "1null", "[01]", "[00]", "[-01]",
        "[1.]", "[.e1]", "[1e1e1]", "[9e999e999]", "\u{1e}[1]\n", "//c\n[1]", "/*c*/[1]", "[1,/*c*/2]",
    ] {
        v.push(s.as_bytes().to_vec());
    }
    v.push(format!("[{}]", "9".repeat(400)).into_bytes());
    v.push(format!("[-{}.{}e-{}]", "1".repeat(400), "2".repeat(400), "3".repeat(40)).into_bytes());
    v.push(format!("[0.{}1]", "0".repeat(400)).into_bytes());
    v.push(format!("[1e{}]", "9".repeat(30)).into_bytes());
    v.push(format!("\"{}\"", "\\ud800".repeat(50)).into_bytes());
    v.push(format!("\"{}", "\\".repeat(101)).into_bytes());
    v.push(format!("[{}", "\"".repeat(101)).into_bytes());
    // yaml-flavoured
    for s in [
        "a: b: c", "a:\n\tb: 1", "- a\n -b", "key: [a, b", "key: {a: b", "key: \"unterminated", "key: 'unterminated", "key: |\n", "key: |9\n x", "key: >0\n x", "key: |-+\n x",
        "*unknown", "a: *unknown", "&a", "&", "*", "!", "!!", "!<", "!<>", "? ", "?", ": ", ":", "- ", "-", "---", "...", "--- ---", "--- |\n x\n...\n...", "%", "%YAML", "%YAML 9.9\n---\na",
        "%TAG\n---\na", "a: !!int x", "a: !!float y", "a: !!bool z", "a: !!null w", "<<: 1", "<<: *x", "<<: [*x, 1]", "a: &a\n  <<: *a", "a: &a {<<: *a}", "&a a: *a", "? &a a\n: *a",
        "a: 'x\n\n  y'", "a: \"x\\\n  y\"", "a: \"\\x4\"", "a: \"\\u123\"", "a: \"\\U0011FFFF\"", "a: \"\\UFFFFFFFF\"", "a: \"\\ud800\"", "a: \"\\q\"", "a: \"\\", "a: '", "a: ''", "a: '''", "a: ''''",
        "a: |\n  x\n y\nz", "a: >\n\n\n", "a: |\r\n  x\r\n", "a:\r  b\r", "- [a, [b, {c: [d]}]]", "[a, b]: c", "{a, b}: c", "{a: }", "{: a}", "[: a]", "{? a}", "[? a : b]", "{a: b,, c}",
        "a: b # c\r\n#d\r", "#", "# only comment", "a:    # c", "a: b#c", "'a': 'b'", "\"a\": \"b\"", "\"a\n b\": c", "a: \"b\n\n c\"", "a\n: b", "a:\n- b\n- c", "a:\n  - b\n -c",
        "- a: b\n  c: d\n- e", "-\n  a", "-\n-\n-", "a:\n\n\nb:", "\t", "\ta: b", "a:\tb", "- \t- a", "a: [\n]", "a: {\n}", "a: [\n  b,\n]\n", "a: [b\nc]", "a: [b,\n# c\nd]", "a: - b",
        "a: ? b", "a: : b", "a: | b", "a: > b", "a: @b", "a: `b", "@", "`", "a: %b", "a: b\n...\nc: d", "a: b\n--- c\n", "---a", "--- a\n--- b\n--- c", "...\n...\n", "a: b\n....", "a: ---",
        "0: 1\n1.5: 2\ntrue: 3\nnull: 4\n~: 5\n[]: 6\n{}: 7", "\u{85}", "a:\u{a0}b", "\u{2028}a: b", "a: \u{2029}", "\u{FEFF}", "\u{FEFF}\u{FEFF}a", "a: \u{FEFF}b",
    ] {
        v.push(s.as_bytes().to_vec());
    }
    v
}

pub fn gen(tier: Tier, r: &mut Rng, emit: &mut dyn FnMut(String)) {
    let q = tier == Tier::Quick;
    let scale = |quick: usize, thorough: usize| if q { quick } else { thorough };

    // ---- modelled stream: accessors at arbitrary offsets -------------------------------------
    // exhaustive: every text of length ≤ 3 over a 7-letter alphabet, every start
    let alpha: &[u8] = b"\"\\a-1e]";
    for len in 1..=scale(3, 4) {
        let total = alpha.len().pow(len as u32);
        for code in 0..total {
            let mut c = code;
            let t: Vec<u8> = (0..len)
                .map(|_| {
                    let b = alpha[c % alpha.len()];
                    c /= alpha.len();
                    b
                })
                .collect();
            for s in 0..len {
                emit(format!("C19 acc {} {}", hex_bytes(&t), s));
            }
        }
    }
    let docs: Vec<Vec<u8>> = VALID_JSON.iter().map(|s| s.as_bytes().to_vec()).chain(special_docs()).collect();
    for d in &docs {
        if d.is_empty() || d.len() > 300 {
            continue;
        }
        // every start offset of the intact document, and of every truncation (sampled when long)
        for s in 0..d.len() {
            emit(format!("C19 acc {} {}", hex_bytes(d), s));
        }
        let step = if q { (d.len() / 12).max(1) } else { 1 };
        let mut cut = 1;
        while cut < d.len() {
            let t = &d[..cut];
            for _ in 0..scale(3, 8) {
                let s = r.usize_below(t.len());
                emit(format!("C19 acc {} {}", hex_bytes(t), s));
            }
            // the interesting starts: every quote / digit / minus in the truncation
            for (s, b) in t.iter().enumerate() {
                if (*b == b'"' && (s + 8 >= cut || r.chance(1, 4))) || (s + 3 >= cut) {
                    emit(format!("C19 acc {} {}", hex_bytes(t), s));
                }
            }
            cut += step;
        }
    }
    for _ in 0..scale(4000, 60_000) {
        let t = match r.below(4) {
            0 => rand_bytes(r, 24),
            1 => soup(r, JSON_TOKENS, 10),
            2 => {
                // escape-heavy string body
                let mut v = vec![b'"'];
                for _ in 0..r.below(8) {
                    v.extend_from_slice(r.pick(&[
                        "\\u", "\\ud800", "\\udbff", "\\udc00", "\\udfff", "\\u0041", "\\u00E9", "\\uffff", "\\uD83D\\uDE00", "\\", "\\n", "\\x", "\"", "a", "é", "\u{1F600}",
                        "\\ud83d\\u", "\\ud83d\\ud", "0", "g", "\\u00g0", "\\u+123",
                    ])
                    .as_bytes());
                }
                if r.chance(1, 2) {
                    v.push(b'"');
                }
                bad_or_same(r, v)
            }
            _ => {
                let k = r.usize_below(VALID_JSON.len());
                mutate(r, VALID_JSON[k].as_bytes())
            }
        };
        if t.is_empty() {
            continue;
        }
        let s = if r.chance(1, 3) { 0 } else { r.usize_below(t.len()) };
        emit(format!("C19 acc {} {}", hex_bytes(&t), s));
        if r.chance(1, 4) {
            emit(format!("C19 esc {}", hex_bytes(&t)));
        }
        if r.chance(1, 16) {
            let k = r.usize_below(t.len().min(6) + 1);
            emit(format!("C19 hex4 {}", hex_bytes(&t[..k])));
        }
    }
    for _ in 0..scale(400, 10_000) {
        let hexd: &[u8] = b"0123456789abcdefABCDEFgG/:@`x ";
        let n = *r.pick(&[0usize, 1, 3, 4, 4, 4, 4, 5]);
        let t: Vec<u8> = (0..n).map(|_| *r.pick(hexd)).collect();
        emit(format!("C19 hex4 {}", hex_bytes(&t)));
    }
    // DSV field slicing over arbitrary marker sets
    for _ in 0..scale(1500, 20_000) {
        let len = r.range(0, 40);
        let t: Vec<u8> = (0..len).map(|_| *r.pick(b"ab,\n\"x")).collect();
        let mut m: Vec<u64> = (0..len).filter(|_| r.chance(1, 4)).collect();
        let nl: Vec<u64> = m.iter().copied().filter(|_| r.chance(1, 3)).collect();
        if r.chance(1, 8) && len > 0 {
            m.push(len - 1);
            m.sort();
            m.dedup();
        }
        emit(format!("C19 dsvf {} {} {}", hex_bytes(&t), list(&m), list(&nl)));
    }

    // ---- monitored stream ---------------------------------------------------------------------
    let mut inputs: Vec<Vec<u8>> = Vec::new();
    inputs.extend(special_docs());
    // truncations at every offset + mutations of valid documents
    for d in VALID_JSON.iter().chain(VALID_YAML.iter()).chain(VALID_DSV.iter()) {
        let b = d.as_bytes();
        inputs.push(b.to_vec());
        let step = if q { 2 } else { 1 };
        for cut in (0..b.len()).step_by(step) {
            inputs.push(b[..cut].to_vec());
        }
        for _ in 0..scale(20, 100) {
            inputs.push(mutate(r, b));
        }
        for _ in 0..scale(3, 40) {
            inputs.push(bad_utf8(r, b));
        }
    }
    for _ in 0..scale(300, 6_000) {
        let mut s = String::new();
        gen_json(r, 4, &mut s);
        let b = s.into_bytes();
        match r.below(4) {
            0 => inputs.push(b),
            1 => {
                let cut = r.usize_below(b.len() + 1);
                inputs.push(b[..cut].to_vec());
            }
            2 => inputs.push(mutate(r, &b)),
            _ => inputs.push(bad_utf8(r, &b)),
        }
    }
    for _ in 0..scale(500, 8_000) {
        let m = if r.chance(1, 20) { 2000 } else { 48 };
        inputs.push(rand_bytes(r, m));
    }
    for _ in 0..scale(700, 10_000) {
        let m = if r.chance(1, 20) { 400 } else { 24 };
        inputs.push(soup(r, JSON_TOKENS, m));
    }
    for _ in 0..scale(1200, 15_000) {
        let m = if r.chance(1, 20) { 300 } else { 20 };
        inputs.push(soup(r, YAML_TOKENS, m));
    }
    let mut jq_batch: Vec<String> = Vec::new();
    let mut yq_batch: Vec<String> = Vec::new();
    let mut yq_err_sample = scale(3, 200);
    let flush = |mode: &str, batch: &mut Vec<String>, emit: &mut dyn FnMut(String)| {
        if !batch.is_empty() {
            emit(format!("C19 clib {mode} {}", batch.join(",")));
            batch.clear();
        }
    };
    let mut nb = 0usize;
    for (i, t) in inputs.iter().enumerate() {
        let hx = hex_bytes(t);
        emit(format!("C19 json {hx}"));
        emit(format!("C19 yaml {hx}"));
        if i % 3 == 0 {
            let (d, qc) = *r.pick(&[(b',', b'"'), (b'\t', b'"'), (b'|', b'\''), (b':', b'"'), (b'"', b'"'), (b'\n', b'"'), (b',', b',')]);
            emit(format!("C19 dsv {hx} {d} {qc}"));
        }
        // CLI leg: every input goes to `jq .` in batches (jq continues after an erroring file); `yq`
        // stops at the first file it rejects, so only inputs the loader accepts are batched there and
        // a few rejected ones are sent on their own.
        if t.is_empty() {
            continue;
        }
        jq_batch.push(hx.clone());
        if jq_batch.len() >= scale(1000, 400) {
            nb += 1;
            flush(if nb % 2 == 0 { "jq" } else { "jqc" }, &mut jq_batch, emit);
        }
        let accepted = std::panic::catch_unwind(|| YamlIndex::build(t).is_ok()).unwrap_or(true);
        if accepted {
            yq_batch.push(hx);
            if yq_batch.len() >= scale(500, 150) {
                nb += 1;
                flush(if nb % 2 == 0 { "yq" } else { "yqj" }, &mut yq_batch, emit);
            }
        } else if yq_err_sample > 0 && r.chance(1, 40) {
            yq_err_sample -= 1;
            emit(format!("C19 clib yq {hx}"));
        }
    }
    flush("jq", &mut jq_batch, emit);
    flush("yqj", &mut yq_batch, emit);
    // deep nesting: in a child process (abort visible), and through the CLI
    let mut deep_json = Vec::new();
    let mut deep_yaml = Vec::new();
    for (kind, t) in deep_docs(q) {
        let hx = hex_bytes(&t);
        if t.len() <= 1200 {
            emit(format!("C19 {kind} {hx}"));
        } else {
            emit(format!("C19 iso {kind} {hx}"));
        }
        if kind == "json" {
            deep_json.push(hx);
        } else {
            deep_yaml.push(hx);
        }
    }
    emit(format!("C19 clib jq {}", deep_json.join(",")));
    // yq stops at the first rejected file: deep YAML documents go one per process (sampled in quick)
    for (i, hx) in deep_yaml.iter().enumerate() {
        if !q || i % 3 == 0 {
            emit(format!("C19 clib {} {hx}", if i % 2 == 0 { "yq" } else { "yqj" }));
        }
    }
    // ---- program parser ------------------------------------------------------------------------
    for _ in 0..scale(3000, 60_000) {
        let p = crate::c30::program_soup(r);
        emit(format!("C19 jqp {}", hex_bytes(p.as_bytes())));
    }
    // truncated escapes followed by end of input / multi-byte characters, in every string context
    let esc = crate::c30::escape_programs();
    for (i, p) in esc.iter().enumerate() {
        if !q || i % 2 == 1 {
            emit(format!("C19 jqp {}", hex_bytes(p.as_bytes())));
        }
    }
    for i in 0..scale(8, 200) {
        let p = crate::c30::program_soup(r);
        emit(format!("C19 clip {} {}", if i % 2 == 0 { "jq" } else { "yq" }, hex_bytes(p.as_bytes())));
    }
}

fn bad_or_same(r: &mut Rng, v: Vec<u8>) -> Vec<u8> {
    if r.chance(1, 8) {
        bad_utf8(r, &v)
    } else {
        v
    }
}
