//! svharness — runs the real succinctly implementation on generated or replayed
//! request lines and prints `<request>\t<implementation output>` per line.
//!
//!   svharness gen <Cxx> <quick|thorough> <seed>
//!   svharness replay            (request lines on stdin)
//!   svharness tables            (JSON dump of private constant tables)
//!   svharness info              (JSON: features, CPU paths)
mod rng;
mod util;
mod c02;

use std::io::{BufRead, Write};

#[derive(Clone, Copy, PartialEq, Eq, Debug)]
pub enum Tier {
    Quick,
    Thorough,
}

type GenFn = fn(Tier, &mut rng::Rng, &mut dyn FnMut(String));
type ExecFn = fn(&[&str]) -> String;

fn registry() -> Vec<(&'static str, GenFn, ExecFn)> {
    vec![("C02", c02::gen as GenFn, c02::exec as ExecFn)]
}

fn exec_line(line: &str, reg: &[(&'static str, GenFn, ExecFn)]) -> String {
    let toks: Vec<&str> = line.split(' ').collect();
    let Some(&(_, _, ex)) = reg.iter().find(|(id, _, _)| *id == toks[0]) else {
        return "UNKNOWN-PROPERTY".to_string();
    };
    let args: Vec<&str> = toks[1..].to_vec();
    match std::panic::catch_unwind(|| ex(&args)) {
        Ok(s) => s,
        Err(_) => "PANIC".to_string(),
    }
}

fn main() {
    std::panic::set_hook(Box::new(|_| {}));
    let args: Vec<String> = std::env::args().collect();
    let reg = registry();
    let stdout = std::io::stdout();
    let mut out = std::io::BufWriter::with_capacity(1 << 20, stdout.lock());
    match args.get(1).map(String::as_str) {
        Some("gen") => {
            let prop = args[2].as_str();
            let tier = if args[3] == "thorough" { Tier::Thorough } else { Tier::Quick };
            let seed: u64 = args[4].parse().expect("seed");
            let Some(&(_, g, _)) = reg.iter().find(|(id, _, _)| *id == prop) else {
                eprintln!("unknown property {prop}");
                std::process::exit(2);
            };
            let mut root = rng::Rng::new(seed);
            let mut r = root.fork(prop);
            let mut emit = |req: String| {
                let res = exec_line(&req, &reg);
                let _ = writeln!(out, "{req}\t{res}");
            };
            g(tier, &mut r, &mut emit);
        }
        Some("replay") => {
            let stdin = std::io::stdin();
            for line in stdin.lock().lines() {
                let line = line.expect("stdin");
                let line = line.trim_end();
                if line.is_empty() {
                    continue;
                }
                let res = exec_line(line, &reg);
                let _ = writeln!(out, "{line}\t{res}");
            }
        }
        Some("tables") => {
            let _ = writeln!(out, "{}", tables_json());
        }
        Some("info") => {
            let _ = writeln!(out, "{}", info_json());
        }
        _ => {
            eprintln!("usage: svharness gen <Cxx> <tier> <seed> | replay | tables | info");
            std::process::exit(2);
        }
    }
    let _ = out.flush();
}

fn json_list<T: std::fmt::Display>(xs: impl Iterator<Item = T>) -> String {
    format!("[{}]", xs.map(|x| x.to_string()).collect::<Vec<_>>().join(","))
}

fn tables_json() -> String {
    use succinctly::verif_hooks as h;
    let mut parts = Vec::new();
    parts.push(format!("\"SELECT_IN_BYTE_TABLE\":{}", json_list(h::SELECT_IN_BYTE_TABLE.iter())));
    format!("{{{}}}", parts.join(","))
}

fn info_json() -> String {
    let mut feats = Vec::new();
    if cfg!(feature = "simd") {
        feats.push("\"simd\"");
    }
    if cfg!(feature = "portable-popcount") {
        feats.push("\"portable-popcount\"");
    }
    if cfg!(feature = "scalar-yaml") {
        feats.push("\"scalar-yaml\"");
    }
    format!(
        "{{\"features\":[{}],\"avx2\":{},\"bmi2\":{},\"sse41\":{},\"fast_bmi2\":{},\"avx512vpopcntdq\":{}}}",
        feats.join(","),
        std::arch::is_x86_feature_detected!("avx2"),
        std::arch::is_x86_feature_detected!("bmi2"),
        std::arch::is_x86_feature_detected!("sse4.1"),
        succinctly::verif_hooks::has_fast_bmi2(),
        std::arch::is_x86_feature_detected!("avx512vpopcntdq"),
    )
}
