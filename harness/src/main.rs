//! svharness — runs the real succinctly implementation on generated or replayed
//! request lines and prints `<request>\t<implementation output>` per line.
//!
//!   svharness gen <Cxx> <quick|thorough> <seed>
//!   svharness replay            (request lines on stdin)
//!   svharness tables            (JSON dump of private constant tables)
//!   svharness info              (JSON: features, CPU paths)
//!
//! Property modules are `src/cNN.rs`; `build.rs` collects them into the registry.
//! Each exposes `gen` (deterministic request generator), `exec` (run one request
//! against the implementation) and `tables` (constant tables for the extractor).
#![allow(dead_code)]
mod rng;
mod util;
include!(concat!(env!("OUT_DIR"), "/registry.rs"));

use std::io::{BufRead, Write};

#[derive(Clone, Copy, PartialEq, Eq, Debug)]
pub enum Tier {
    Quick,
    Thorough,
}

pub type GenFn = fn(Tier, &mut rng::Rng, &mut dyn FnMut(String));
pub type ExecFn = fn(&[&str]) -> String;
/// Private constant tables of the implementation as `(name, JSON array text)`.
pub type TablesFn = fn() -> Vec<(&'static str, String)>;
type Reg = [(&'static str, GenFn, ExecFn, TablesFn)];

pub fn json_list<T: std::fmt::Display>(xs: impl Iterator<Item = T>) -> String {
    format!("[{}]", xs.map(|x| x.to_string()).collect::<Vec<_>>().join(","))
}

fn exec_line(line: &str, reg: &Reg) -> String {
    let toks: Vec<&str> = line.split(' ').collect();
    let Some(&(_, _, ex, _)) = reg.iter().find(|(id, _, _, _)| *id == toks[0]) else {
        return "UNKNOWN-PROPERTY".to_string();
    };
    let args: Vec<&str> = toks[1..].to_vec();
    match std::panic::catch_unwind(|| ex(&args)) {
        Ok(s) => s,
        Err(_) => "PANIC".to_string(),
    }
}

fn main() {
    std::panic::set_hook(Box::new(|_| {}));
    let args: Vec<String> = std::env::args().collect();
    let reg = registry();
    let stdout = std::io::stdout();
    let mut out = std::io::BufWriter::with_capacity(1 << 20, stdout.lock());
    match args.get(1).map(String::as_str) {
        Some("gen") => {
            let prop = args[2].as_str();
            let tier = if args[3] == "thorough" { Tier::Thorough } else { Tier::Quick };
            let seed: u64 = args[4].parse().expect("seed");
            let Some(&(_, g, _, _)) = reg.iter().find(|(id, _, _, _)| *id == prop) else {
                eprintln!("unknown property {prop}");
                std::process::exit(2);
            };
            let mut root = rng::Rng::new(seed);
            let mut r = root.fork(prop);
            let mut emit = |req: String| {
                let res = exec_line(&req, &reg);
                let _ = writeln!(out, "{req}\t{res}");
            };
            g(tier, &mut r, &mut emit);
        }
        Some("replay") => {
            let stdin = std::io::stdin();
            for line in stdin.lock().lines() {
                let line = line.expect("stdin");
                let line = line.trim_end();
                if line.is_empty() {
                    continue;
                }
                let res = exec_line(line, &reg);
                let _ = writeln!(out, "{line}\t{res}");
            }
        }
        Some("tables") => {
            let mut parts = Vec::new();
            for (_, _, _, t) in &reg {
                for (name, json) in t() {
                    parts.push(format!("\"{name}\":{json}"));
                }
            }
            let _ = writeln!(out, "{{{}}}", parts.join(","));
        }
        Some("info") => {
            let _ = writeln!(out, "{}", info_json());
        }
        _ => {
            eprintln!("usage: svharness gen <Cxx> <tier> <seed> | replay | tables | info");
            std::process::exit(2);
        }
    }
    let _ = out.flush();
}

fn info_json() -> String {
    let mut feats = Vec::new();
    if cfg!(feature = "simd") {
        feats.push("\"simd\"");
    }
    if cfg!(feature = "portable-popcount") {
        feats.push("\"portable-popcount\"");
    }
    if cfg!(feature = "scalar-yaml") {
        feats.push("\"scalar-yaml\"");
    }
    format!(
        "{{\"features\":[{}],\"avx2\":{},\"bmi2\":{},\"sse41\":{},\"fast_bmi2\":{},\"avx512vpopcntdq\":{}}}",
        feats.join(","),
        std::arch::is_x86_feature_detected!("avx2"),
        std::arch::is_x86_feature_detected!("bmi2"),
        std::arch::is_x86_feature_detected!("sse4.1"),
        succinctly::verif_hooks::has_fast_bmi2(),
        std::arch::is_x86_feature_detected!("avx512vpopcntdq"),
    )
}
