//! C09 — JSON string escaping: the four body writers and every tier of the escape scanner.
use crate::rng::Rng;
use crate::util::*;
use crate::Tier;
use succinctly::jq::escape as e;
use succinctly::verif_hooks as h;

pub fn tables() -> Vec<(&'static str, String)> {
    Vec::new()
}

fn run(w: fn(&mut String, &str) -> core::fmt::Result, s: &str) -> String {
    let mut out = String::new();
    w(&mut out, s).unwrap();
    hex_bytes(out.as_bytes())
}

pub fn exec(a: &[&str]) -> String {
    match a[0] {
        // w <code points> -> jq=<hex> jqa=<hex> yq=<hex> yqa=<hex>
        "w" => {
            let mut s = String::new();
            if a[1] != "-" {
                for t in a[1].split(',') {
                    match char::from_u32(t.parse::<u32>().unwrap()) {
                        Some(c) => s.push(c),
                        None => return "BAD-INPUT".into(),
                    }
                }
            }
            format!(
                "jq={} jqa={} yq={} yqa={}",
                run(e::write_json_body_jq::<String>, &s),
                run(e::write_json_body_jq_ascii::<String>, &s),
                run(e::write_json_body_yq::<String>, &s),
                run(e::write_json_body_yq_ascii::<String>, &s)
            )
        }
        // scan <bytes> <start> -> scalar,sse2,avx2,dispatch(false),dispatch(true),find_json_escape
        "scan" => {
            let bs = parse_bytes(a[1]);
            let st = num(a[2]);
            let t = |tier: u8| h::verif_json_escape_tier(&bs, st, tier);
            let sse2 = t(1).unwrap();
            format!(
                "{},{},{},{},{},{}",
                t(0).unwrap(),
                sse2,
                t(2).unwrap_or(sse2),
                t(3).unwrap(),
                t(4).unwrap_or(sse2),
                h::find_json_escape(&bs, st)
            )
        }
        _ => "BAD-OP".into(),
    }
}

fn cps(v: &[u32]) -> String {
    if v.is_empty() {
        "-".into()
    } else {
        v.iter().map(|c| c.to_string()).collect::<Vec<_>>().join(",")
    }
}

fn rand_scalar(r: &mut Rng) -> u32 {
    loop {
        let c = match r.below(8) {
            0 => r.below(0x20) as u32,
            1 => *r.pick(&[0x22u32, 0x5C, 0x7F, 0x2F, 0x08, 0x0C, 0x0A, 0x0D, 0x09, 0x80, 0x9F, 0xA0, 0xFFFF, 0x10000, 0x10FFFF, 0xD7FF, 0xE000]),
            2 | 3 => r.range(0x20, 0x7E) as u32,
            4 => r.range(0x80, 0x7FF) as u32,
            5 => r.range(0x800, 0xFFFF) as u32,
            _ => r.range(0x10000, 0x10FFFF) as u32,
        };
        if char::from_u32(c).is_some() {
            return c;
        }
    }
}

pub fn gen(tier: Tier, r: &mut Rng, emit: &mut dyn FnMut(String)) {
    let quick = tier == Tier::Quick;
    emit("C09 w -".into());
    // every scalar value once (quick: all < 0x800 + sample; thorough: all)
    let mut single: Vec<u32> = (0..0x800).collect();
    if quick {
        for _ in 0..4000 {
            single.push(rand_scalar(r));
        }
        single.extend([0xD7FF, 0xE000, 0xFFFD, 0xFFFE, 0xFFFF, 0x10000, 0x10001, 0x103FF, 0x10400, 0xFFFFF, 0x100000, 0x10FFFF]);
    } else {
        single.extend(0x800..0x11_0000u32);
    }
    let mut batch: Vec<u32> = Vec::new();
    for c in single {
        if char::from_u32(c).is_none() {
            continue;
        }
        if quick || c < 0x800 {
            emit(format!("C09 w {c}"));
        } else {
            // thorough: 16 code points per request keeps the stream small
            batch.push(c);
            if batch.len() == 16 {
                emit(format!("C09 w {}", cps(&batch)));
                batch.clear();
            }
        }
    }
    if !batch.is_empty() {
        emit(format!("C09 w {}", cps(&batch)));
    }
    // strings with one escapable at every offset 0..=70, in ASCII / multibyte filler
    let esc: &[u32] = &[0x22, 0x5C, 0x00, 0x08, 0x0A, 0x1F, 0x7F, 0x0C];
    let fill: &[u32] = &[0x61, 0xE9, 0x20AC, 0x1F600];
    for &f in fill {
        for off in 0..=70usize {
            if quick && f != 0x61 && off % 2 == 1 {
                continue;
            }
            for &x in esc {
                let mut v: Vec<u32> = vec![f; off];
                v.push(x);
                let tail = r.usize_below(40);
                for _ in 0..tail {
                    v.push(if r.chance(1, 10) { rand_scalar(r) } else { f });
                }
                emit(format!("C09 w {}", cps(&v)));
            }
        }
    }
    // random strings
    let n = if quick { 1500 } else { 60_000 };
    for _ in 0..n {
        let len = r.usize_below(80);
        let v: Vec<u32> = (0..len).map(|_| rand_scalar(r)).collect();
        emit(format!("C09 w {}", cps(&v)));
    }
    // scanner: an escapable byte at every offset 0..=70 and every start offset
    let safe: &[u8] = &[b'a', 0x20, 0x7F, 0x80, 0xBF, 0xC3, 0xE2, 0xF0, 0xFF, 0x21, 0x23, 0x5B, 0x5D];
    for len in [0usize, 1, 15, 16, 17, 31, 32, 33, 47, 48, 49, 63, 64, 65, 71] {
        for hit in 0..=len {
            if quick && len > 33 && hit % 3 != 0 && hit + 2 < len {
                continue;
            }
            let mut v: Vec<u8> = (0..len).map(|_| *r.pick(safe)).collect();
            if hit < len {
                v[hit] = *r.pick(&[0x22u8, 0x5C, 0x00, 0x1F, 0x0A, 0x10]);
                if r.chance(1, 3) && hit + 5 < len {
                    v[hit + 5] = 0x22;
                }
            }
            let hx = hex_bytes(&v);
            for st in 0..=len {
                if quick && len > 17 && st % 4 != 0 && st != hit && st != hit + 1 {
                    continue;
                }
                emit(format!("C09 scan {hx} {st}"));
            }
            emit(format!("C09 scan {hx} {}", len + 1 + r.usize_below(3)));
        }
    }
    // every byte value alone and inside a 40-byte safe run
    for b in 0..=255u8 {
        emit(format!("C09 scan {} 0", hex_bytes(&[b])));
        let mut v = vec![b'a'; 40];
        v[r.usize_below(40)] = b;
        emit(format!("C09 scan {} {}", hex_bytes(&v), r.usize_below(8)));
    }
    let n = if quick { 3000 } else { 100_000 };
    for _ in 0..n {
        let len = r.usize_below(100);
        let v: Vec<u8> = (0..len).map(|_| if r.chance(1, 30) { r.byte() & 0x3F } else { *r.pick(safe) }).collect();
        emit(format!("C09 scan {} {}", hex_bytes(&v), r.usize_below(len + 2)));
    }
}
