//! C16 — YAML index does not depend on the SIMD dispatch level.
//!
//! Kernel ops: every scanning kernel of `yaml::simd` driven per dispatch level (AVX2 / SSE2 /
//! scalar kernels through `verif_hooks::yaml_simd`) and through the build's public entry point.
//! Answer slots are `avx2;sse2;scalar;public` (fewer where a level has no kernel). A slot whose
//! level is not compiled into this build (`scalar-yaml`) or not available on the CPU is filled by
//! the build's public entry point, so every slot is always an implementation answer that the model
//! of that level has to reproduce.
//!
//! `idx`: whole-index digest, compared across build/dispatch variants by tools/run.py
//! (`xvariant_ops`).
use crate::rng::Rng;
use crate::util::*;
use crate::Tier;
use succinctly::verif_hooks::yaml_simd as k;
use succinctly::yaml::simd;

pub fn tables() -> Vec<(&'static str, String)> {
    vec![]
}

#[cfg(all(target_arch = "x86_64", not(feature = "scalar-yaml")))]
mod lv {
    use succinctly::verif_hooks::yaml_simd::x86 as x;
    use succinctly::yaml::simd::YamlCharClass;
    pub const HAS_X86: bool = true;
    pub fn fq_a(b: &[u8], s: usize, e: usize) -> Option<Option<usize>> {
        x::find_quote_or_escape_avx2(b, s, e)
    }
    pub fn fq_s(b: &[u8], s: usize, e: usize) -> Option<Option<usize>> {
        Some(x::find_quote_or_escape_sse2(b, s, e))
    }
    pub fn sq_a(b: &[u8], s: usize, e: usize) -> Option<Option<usize>> {
        x::find_single_quote_avx2(b, s, e)
    }
    pub fn sq_s(b: &[u8], s: usize, e: usize) -> Option<Option<usize>> {
        Some(x::find_single_quote_sse2(b, s, e))
    }
    pub fn nl_a(b: &[u8], s: usize) -> Option<Option<usize>> {
        x::find_newline_avx2(b, s)
    }
    pub fn nl_s(b: &[u8], s: usize) -> Option<Option<usize>> {
        Some(x::find_newline_sse2(b, s))
    }
    pub fn ls_a(b: &[u8], s: usize) -> Option<usize> {
        x::count_leading_spaces_avx2(b, s)
    }
    pub fn ls_s(b: &[u8], s: usize) -> Option<usize> {
        Some(x::count_leading_spaces_sse2(b, s))
    }
    pub fn be_a(b: &[u8], s: usize, m: usize) -> Option<usize> {
        x::find_block_scalar_end_avx2(b, s, m)
    }
    pub fn be_s(b: &[u8], s: usize, m: usize) -> Option<usize> {
        Some(x::find_block_scalar_end_sse2(b, s, m))
    }
    pub fn an_a(b: &[u8], s: usize) -> Option<usize> {
        x::parse_anchor_name_avx2(b, s)
    }
    pub fn avx2_enabled() -> Option<bool> {
        Some(x::avx2_enabled())
    }
    pub fn avx2_detected() -> bool {
        x::avx2_detected()
    }
    pub fn clamp(v: &str) -> Option<bool> {
        x::parse_simd_clamp(v)
    }
    fn cs(c: YamlCharClass) -> String {
        format!(
            "{:x}/{:x}/{:x}/{:x}/{:x}/{:x}/{:x}/{:x}/{:x}/{:x}",
            c.width,
            c.newlines,
            c.carriage_returns,
            c.colons,
            c.hyphens,
            c.spaces,
            c.quotes_double,
            c.quotes_single,
            c.backslashes,
            c.hash
        )
    }
    /// `avx2-kernel;sse2-kernel;ok|BAD(public)`: the public classifier must return exactly what the
    /// kernel selected by `avx2_enabled()` (and the 32-byte availability rule) returns.
    pub fn classify(has_cr: bool, b: &[u8], o: usize) -> Option<String> {
        let (a, s, p) = if has_cr {
            (
                x::classify_yaml_chars_avx2::<true>(b, o),
                x::classify_yaml_chars_sse2::<true>(b, o),
                succinctly::yaml::simd::classify_yaml_chars::<true>(b, o),
            )
        } else {
            (
                x::classify_yaml_chars_avx2::<false>(b, o),
                x::classify_yaml_chars_sse2::<false>(b, o),
                succinctly::yaml::simd::classify_yaml_chars::<false>(b, o),
            )
        };
        if !x::avx2_detected() {
            return None;
        }
        let f = |c: Option<YamlCharClass>| c.map(cs).unwrap_or_else(|| "-".into());
        let expect = if x::avx2_enabled() && a.is_some() { f(a) } else { f(s) };
        let pv = f(p);
        let ps = if pv == expect { "ok".to_string() } else { format!("BAD({pv})") };
        Some(format!("{};{};{}", f(a), f(s), ps))
    }
}

#[cfg(not(all(target_arch = "x86_64", not(feature = "scalar-yaml"))))]
mod lv {
    pub const HAS_X86: bool = false;
    pub fn fq_a(_: &[u8], _: usize, _: usize) -> Option<Option<usize>> {
        None
    }
    pub fn fq_s(_: &[u8], _: usize, _: usize) -> Option<Option<usize>> {
        None
    }
    pub fn sq_a(_: &[u8], _: usize, _: usize) -> Option<Option<usize>> {
        None
    }
    pub fn sq_s(_: &[u8], _: usize, _: usize) -> Option<Option<usize>> {
        None
    }
    pub fn nl_a(_: &[u8], _: usize) -> Option<Option<usize>> {
        None
    }
    pub fn nl_s(_: &[u8], _: usize) -> Option<Option<usize>> {
        None
    }
    pub fn ls_a(_: &[u8], _: usize) -> Option<usize> {
        None
    }
    pub fn ls_s(_: &[u8], _: usize) -> Option<usize> {
        None
    }
    pub fn be_a(_: &[u8], _: usize, _: usize) -> Option<usize> {
        None
    }
    pub fn be_s(_: &[u8], _: usize, _: usize) -> Option<usize> {
        None
    }
    pub fn an_a(_: &[u8], _: usize) -> Option<usize> {
        None
    }
    pub fn avx2_enabled() -> Option<bool> {
        None
    }
    pub fn avx2_detected() -> bool {
        false
    }
    pub fn clamp(_: &str) -> Option<bool> {
        None
    }
    pub fn classify(_: bool, _: &[u8], _: usize) -> Option<String> {
        None
    }
}

/// In-harness oracle for `cl` where no classifier exists in this build (`scalar-yaml`, or no
/// AVX2): bit i ⇔ byte == c. Keeps the request streams of all variants aligned; not counted as
/// implementation evidence.
fn classify_oracle(has_cr: bool, b: &[u8], o: usize) -> String {
    let one = |w: usize| -> String {
        if o + w > b.len() {
            return "-".into();
        }
        let m = |c: u8| -> u64 { (0..w).fold(0u64, |acc, i| acc | (((b[o + i] == c) as u64) << i)) };
        format!(
            "{:x}/{:x}/{:x}/{:x}/{:x}/{:x}/{:x}/{:x}/{:x}/{:x}",
            w,
            m(b'\n'),
            if has_cr { m(b'\r') } else { 0 },
            m(b':'),
            m(b'-'),
            m(b' '),
            m(b'"'),
            m(b'\''),
            m(b'\\'),
            m(b'#')
        )
    };
    format!("{};{};ok", one(32), one(16))
}

fn clamp_oracle(v: &str) -> Option<bool> {
    match v.trim().to_ascii_lowercase().as_str() {
        "scalar" | "sse2" | "sse42" | "sse4.2" => Some(true),
        "avx2" | "" => Some(false),
        _ => None,
    }
}

pub fn exec(a: &[&str]) -> String {
    match a[0] {
        // fq <buf> <start> <end> -> avx2;sse2;scalar;public
        "fq" => {
            let (b, s, e) = (parse_bytes(a[1]), num(a[2]), num(a[3]));
            let p = simd::find_quote_or_escape(&b, s, e);
            format!(
                "{};{};{};{}",
                opt(lv::fq_a(&b, s, e).unwrap_or(p)),
                opt(lv::fq_s(&b, s, e).unwrap_or(p)),
                opt(k::find_quote_or_escape_scalar(&b, s, e)),
                opt(p)
            )
        }
        "sq" => {
            let (b, s, e) = (parse_bytes(a[1]), num(a[2]), num(a[3]));
            let p = simd::find_single_quote(&b, s, e);
            format!(
                "{};{};{};{}",
                opt(lv::sq_a(&b, s, e).unwrap_or(p)),
                opt(lv::sq_s(&b, s, e).unwrap_or(p)),
                opt(k::find_single_quote_scalar(&b, s, e)),
                opt(p)
            )
        }
        // nl <buf> <start>
        "nl" => {
            let (b, s) = (parse_bytes(a[1]), num(a[2]));
            let p = simd::find_newline(&b, s);
            format!(
                "{};{};{};{}",
                opt(lv::nl_a(&b, s).unwrap_or(p)),
                opt(lv::nl_s(&b, s).unwrap_or(p)),
                opt(k::find_newline_scalar(&b, s)),
                opt(p)
            )
        }
        // ls <buf> <start>
        "ls" => {
            let (b, s) = (parse_bytes(a[1]), num(a[2]));
            let p = simd::count_leading_spaces(&b, s);
            format!(
                "{};{};{};{}",
                lv::ls_a(&b, s).unwrap_or(p),
                lv::ls_s(&b, s).unwrap_or(p),
                k::count_leading_spaces_scalar(&b, s),
                p
            )
        }
        // be <buf> <start> <min_indent> -> avx2 kernel;sse2 kernel;scalar kernel;public
        "be" => {
            let (b, s, m) = (parse_bytes(a[1]), num(a[2]), num(a[3]));
            let p = simd::find_block_scalar_end(&b, s, m).expect("always Some");
            format!(
                "{};{};{};{}",
                lv::be_a(&b, s, m).unwrap_or(p),
                lv::be_s(&b, s, m).unwrap_or(p),
                k::find_block_scalar_end_scalar(&b, s, m),
                p
            )
        }
        // an <buf> <start> -> avx2 kernel;scalar kernel;public
        "an" => {
            let (b, s) = (parse_bytes(a[1]), num(a[2]));
            let p = simd::parse_anchor_name(&b, s);
            format!("{};{};{}", lv::an_a(&b, s).unwrap_or(p), k::parse_anchor_name_scalar(&b, s), p)
        }
        // cl <has_cr> <buf> <offset> -> avx2 kernel;sse2 kernel;ok
        "cl" => {
            let (h, b, o) = (a[1] == "1", parse_bytes(a[2]), num(a[3]));
            lv::classify(h, &b, o).unwrap_or_else(|| classify_oracle(h, &b, o))
        }
        // clamp <utf8 hex> -> T|F|-
        "clamp" => {
            let v = String::from_utf8(parse_bytes(a[1])).expect("utf8");
            let r = if lv::HAS_X86 { lv::clamp(&v) } else { clamp_oracle(&v) };
            match r {
                Some(true) => "T".into(),
                Some(false) => "F".into(),
                None => "-".into(),
            }
        }
        // disp <detected> <env hex|none> -> avx2_enabled() of this process when the request
        // describes this process, else the value recomputed through parse_simd_clamp
        "disp" => {
            let det = a[1] == "1";
            let env = if a[2] == "none" { None } else { Some(String::from_utf8(parse_bytes(a[2])).expect("utf8")) };
            let here = (lv::avx2_detected(), std::env::var("SUCCINCTLY_SIMD").ok());
            let clamp = |v: &str| if lv::HAS_X86 { lv::clamp(v) } else { clamp_oracle(v) };
            let r = match lv::avx2_enabled() {
                Some(en) if here == (det, env.clone()) => en,
                _ => det && !env.as_deref().is_some_and(|v| clamp(v) == Some(true)),
            };
            (r as u8).to_string()
        }
        // idx <yaml bytes hex> -> digest of the whole index + renderings (cross-variant op)
        "idx" => idx_digest(&parse_bytes(a[1])),
        _ => "BAD-OP".into(),
    }
}

// ------------------------------------------------------------------------------------------------
// whole-index digest
// ------------------------------------------------------------------------------------------------

struct Fnv128(u128);
impl Fnv128 {
    fn new() -> Self {
        Fnv128(0x6c62272e07bb014262b821756295c58d)
    }
    fn feed(&mut self, bs: &[u8]) {
        for &b in bs {
            self.0 ^= b as u128;
            self.0 = self.0.wrapping_mul(0x0000000001000000000000000000013B);
        }
    }
}

fn fnv64(bs: &[u8]) -> u64 {
    let mut h = 0xcbf29ce484222325u64;
    for &b in bs {
        h ^= b as u64;
        h = h.wrapping_mul(0x100000001b3);
    }
    h
}

/// `fmt::Write` sink with a byte cap: alias expansion can blow a rendering up; a capped rendering
/// fails at the same byte under every configuration.
struct Capped {
    buf: String,
    cap: usize,
    over: bool,
}
impl std::fmt::Write for Capped {
    fn write_str(&mut self, s: &str) -> std::fmt::Result {
        if self.buf.len() + s.len() > self.cap {
            self.over = true;
            return Err(std::fmt::Error);
        }
        self.buf.push_str(s);
        Ok(())
    }
}

fn render(f: impl FnOnce(&mut Capped) -> std::fmt::Result) -> (String, bool) {
    let mut c = Capped { buf: String::new(), cap: 1 << 20, over: false };
    let r = f(&mut c);
    let mut s = c.buf;
    if c.over {
        s.push_str("<CAP>");
    } else if r.is_err() {
        s.push_str("<FMT-ERR>");
    }
    (s, c.over)
}

fn idx_digest(text: &[u8]) -> String {
    use std::fmt::Write as _;
    use succinctly::jq::document::IndentSpec;
    use succinctly::yaml::YamlIndex;
    let index = match YamlIndex::build(text) {
        Ok(i) => i,
        Err(e) => return format!("err {e:?} / {}", e.to_string().escape_debug()),
    };
    let mut sections: Vec<(&'static str, String)> = Vec::new();
    // every private field, before any accessor touches a lazily built part
    sections.push(("dbg", format!("{index:?}")));
    let bp = index.bp();
    let bp_len = bp.len();
    sections.push(("ib", format!("{} {}", index.ib_len(), hex_words(index.ib()))));
    sections.push(("bp", format!("{} {} {}", bp_len, bp.total_ones(), hex_words(bp.words()))));
    sections.push(("ty", format!("{} {}", index.ty_len(), hex_words(index.ty()))));
    let opens: Vec<usize> = (0..bp_len).filter(|&p| bp.is_open(p)).collect();
    // position tables
    let mut s = String::new();
    let op = index.open_positions();
    let _ = write!(s, "n={} compact={};", op.len(), op.is_compact());
    for i in 0..=opens.len() + 1 {
        let _ = write!(s, "{}:{},{};", i, opt(index.text_pos_by_open_idx(i)), opt(index.text_end_pos_by_open_idx(i)));
    }
    for p in 0..=bp_len {
        let _ = write!(s, "{}>{},{},{};", p, index.bp_to_open_idx(p), opt(index.bp_to_text_pos(p)), opt(index.bp_to_text_end_pos(p)));
    }
    sections.push(("pos", s));
    // containers / types
    let mut s = String::new();
    for &p in &opens {
        let c = index.is_container(p);
        let _ = write!(
            s,
            "{}:{}{}{}{};",
            p,
            c as u8,
            if c { index.is_sequence_at_bp(p) as u8 } else { 9 },
            index.count_containers_before(p),
            index.is_seq_item(text, p) as u8
        );
    }
    for t in 0..=index.ty_len() {
        let _ = write!(s, "{}", index.is_sequence_at(t) as u8);
    }
    sections.push(("cont", s));
    // interest-bit rank/select and text -> bp lookup
    let mut s = String::new();
    let step = if text.len() > 4096 { 7 } else { 1 };
    let mut pos = 0;
    while pos <= text.len() {
        let _ = write!(s, "{},{};", index.ib_rank1(pos), opt(index.find_bp_at_text_pos(pos)));
        pos += step;
    }
    let ones = index.ib_rank1(text.len());
    let nw = index.ib().len();
    for k in 0..=ones + 1 {
        let _ = write!(
            s,
            "s{},{},{},{};",
            opt(index.ib_select1(k)),
            opt(index.ib_select1_from(k, 0)),
            opt(index.ib_select1_from(k, (k * 7) % (nw + 1))),
            opt(index.ib_select1_from(k, nw))
        );
    }
    sections.push(("rank", s));
    // anchors / aliases / tags / comments
    let mut s = String::new();
    let _ = write!(s, "has_aliases={};", index.has_aliases());
    let mut names: Vec<String> = Vec::new();
    for &p in &opens {
        let an = index.get_anchor_name(p);
        if let Some(n) = an {
            names.push(n.to_string());
        }
        let _ = write!(
            s,
            "{}:{:?},{},{:?},{:?},{:?},{:?};",
            p,
            an,
            index.is_alias(p) as u8,
            index.get_alias_target(p),
            index.get_alias_anchor_name(p),
            index.get_tag(p),
            index.get_line_comment(p)
        );
        let _ = write!(s, "r{:?}c{};", index.resolve_alias(p, text).map(|c| c.bp_position()), index.cursor_at(p, text).bp_position());
    }
    names.sort();
    names.dedup();
    for n in &names {
        let _ = write!(s, "{:?}={:?};", n, index.get_anchor_bp_pos(n));
    }
    sections.push(("meta", s));
    // cursor walk: every node's public view
    let mut s = String::new();
    let root = index.root(text);
    let mut stack = vec![root];
    let mut visited = 0usize;
    let mut docs = 0usize;
    while let Some(c) = stack.pop() {
        visited += 1;
        if visited > bp_len + 2 {
            s.push_str("<LOOP>");
            break;
        }
        if c.document_index().is_some() && c.parent().map(|p| p.bp_position()) == Some(0) {
            docs += 1;
        }
        let _ = write!(
            s,
            "{}:{}/{}/{}/{:?}/{:?}/{:?}/{:?}/{},{}/{}:{}/{:?}/{:?};",
            c.bp_position(),
            c.kind(),
            c.style(),
            c.tag(),
            c.anchor(),
            c.alias(),
            c.explicit_tag(),
            c.line_comment_raw(),
            opt(c.text_position()),
            opt(c.text_end_position()),
            c.line(),
            c.column(),
            c.document_index(),
            c.raw_bytes().map(fnv64)
        );
        if let Some(n) = c.next_sibling() {
            stack.push(n);
        }
        if let Some(f) = c.first_child() {
            stack.push(f);
        }
    }
    sections.push(("cur", s));
    // line/column mapping (lazily built line index)
    let mut s = String::new();
    let mut pos = 0;
    while pos <= text.len() {
        let (l, c) = index.to_line_column(pos, text);
        let _ = write!(s, "{l}:{c}>{};", opt(index.to_offset(l, c, text)));
        pos += step;
    }
    sections.push(("lc", s));
    // renderings
    let (json_c, over) = render(|o| root.stream_json(o, IndentSpec::COMPACT, false));
    let (json_d, _) = render(|o| root.stream_json_document(o, IndentSpec::spaces(2), true));
    let mut js = format!("{json_c}\n{json_d}");
    if !over {
        js.push_str(&root.to_json());
        js.push('\n');
        js.push_str(&root.to_json_document());
    }
    sections.push(("json", js));
    let (y1, _) = render(|o| root.stream_yaml_document(o, IndentSpec::spaces(2), false));
    let (y2, _) = render(|o| root.stream_yaml(o, IndentSpec::COMPACT, false));
    let (y3, _) = render(|o| root.stream_yaml_document(o, IndentSpec::spaces(4), true));
    let mut ys = format!("{y1}\n--\n{y2}\n--\n{y3}");
    let mut d = root.first_child();
    let mut n = 0;
    while let Some(doc) = d {
        let (y, _) = render(|o| doc.stream_yaml_as_document(o, IndentSpec::spaces(2), false));
        ys.push_str("\n--doc\n");
        ys.push_str(&y);
        d = doc.next_sibling();
        n += 1;
        if n > bp_len {
            break;
        }
    }
    sections.push(("yaml", ys));

    let mut h = Fnv128::new();
    let mut out = format!("ok len={} bp={} opens={} docs={}", text.len(), bp_len, opens.len(), docs);
    let mut parts = String::new();
    for (name, body) in &sections {
        h.feed(name.as_bytes());
        h.feed(&[0]);
        h.feed(body.as_bytes());
        h.feed(&[0xff]);
        let _ = write!(parts, " {name}={:016x}", fnv64(body.as_bytes()));
    }
    let _ = write!(out, " h={:032x}{parts}", h.0);
    // a few raw fields so that a replay is readable
    let _ = write!(out, " | ib0={:x} bp0={:x}", index.ib().first().copied().unwrap_or(0), bp.words().first().copied().unwrap_or(0));
    let jtxt = &sections.iter().find(|(n, _)| *n == "json").unwrap().1;
    let cut = jtxt.char_indices().nth(60).map(|(i, _)| i).unwrap_or(jtxt.len());
    let _ = write!(out, " json={}", hex_bytes(jtxt[..cut].as_bytes()));
    out
}

// ------------------------------------------------------------------------------------------------
// generators
// ------------------------------------------------------------------------------------------------

const FILL: &[u8] = b"abcxyz019_.-~/@!$%&*+;<=>?^|ABCZ\x7f\x80\xff\x00\x01\x1f\x21\x23\x26\x28\x3b\x5a\x5e\x7c\x7e\xa2\xdc";

/// Filler byte that is none of the bytes in `avoid`.
fn filler(r: &mut Rng, avoid: &[u8]) -> u8 {
    loop {
        let c = if r.chance(1, 8) { r.byte() } else { *r.pick(FILL) };
        if !avoid.contains(&c) {
            return c;
        }
    }
}

fn emit_find(emit: &mut dyn FnMut(String), op: &str, buf: &[u8], start: usize, end: usize) {
    emit(format!("C16 {op} {} {start} {end}", hex_bytes(buf)));
}

/// Near-miss bytes for each trigger set: differ in one bit / adjacent code, or have the high bit set.
fn near(r: &mut Rng, trig: &[u8]) -> u8 {
    let t = *r.pick(trig);
    match r.below(4) {
        0 => t ^ (1 << r.below(8)),
        1 => t.wrapping_add(1),
        2 => t.wrapping_sub(1),
        _ => t | 0x80,
    }
}

fn gen_kernels(tier: Tier, r: &mut Rng, emit: &mut dyn FnMut(String)) {
    let quick = tier == Tier::Quick;
    // --- dispatch state of this process + clamp spellings
    let env = std::env::var("SUCCINCTLY_SIMD").ok();
    emit(format!(
        "C16 disp {} {}",
        lv::avx2_detected() as u8,
        env.as_deref().map(|v| hex_bytes(v.as_bytes())).unwrap_or_else(|| "none".into())
    ));
    for d in [0, 1] {
        for v in ["none", "-", "73736532", "61767832", "7363616c6172", "626f677573"] {
            emit(format!("C16 disp {d} {v}"));
        }
    }
    let words = [
        "scalar", "sse2", "sse42", "sse4.2", "avx2", "", "SSE2", "Sse4.2", " sse2 ", "\tAVX2\n", "sse", "sse3", "sse41", "sse4_2",
        "avx", "avx512", "neon", "none", "off", "0", "1", "scalar ", "s calar", "sse2\u{a0}", "\u{2003}sse42\u{3000}", "\u{85}avx2",
        "ſse2", "SCALAR", "sse4.2.", "sse2,avx2", "\u{feff}sse2", "\u{200b}sse2", "\u{1680}scalar\u{2028}", "sse２",
    ];
    for w in words {
        emit(format!("C16 clamp {}", hex_bytes(w.as_bytes())));
    }
    for _ in 0..(if quick { 300 } else { 5000 }) {
        // mutate a spelling: case flips, surrounding whitespace (ASCII and Unicode), one edit
        let mut s: Vec<char> = r.pick(&words[..6]).chars().collect();
        for c in s.iter_mut() {
            if r.chance(1, 3) {
                *c = c.to_ascii_uppercase();
            }
        }
        if r.chance(1, 4) && !s.is_empty() {
            let i = r.usize_below(s.len());
            match r.below(3) {
                0 => {
                    s.remove(i);
                }
                1 => s.insert(i, *r.pick(&['2', '.', 's', ' ', 'x', '\u{a0}'])),
                _ => s[i] = *r.pick(&['2', '4', '.', 'e', 'E', 'ſ', 'K']),
            }
        }
        let ws = ['\t', '\n', '\u{b}', '\u{c}', '\r', ' ', '\u{85}', '\u{a0}', '\u{1680}', '\u{2000}', '\u{200a}', '\u{2028}', '\u{2029}', '\u{202f}', '\u{205f}', '\u{3000}', '\u{200b}', '\u{feff}', '\u{1c}', '\u{1f}'];
        for _ in 0..r.below(3) {
            s.insert(0, *r.pick(&ws));
        }
        for _ in 0..r.below(3) {
            s.push(*r.pick(&ws));
        }
        let st: String = s.into_iter().collect();
        emit(format!("C16 clamp {}", hex_bytes(st.as_bytes())));
    }

    // --- find kernels: trigger byte at every offset 0..=70, every start, ends inside/after chunk
    let max_off = 70usize;
    let stride = if quick { 3 } else { 1 };
    for (op, trig) in [("fq", &b"\"\\"[..]), ("sq", &b"'"[..])] {
        for off in 0..=max_off {
            let len = off + 1 + r.usize_below(40);
            let mut buf: Vec<u8> = (0..len).map(|_| filler(r, trig)).collect();
            buf[off] = *r.pick(trig);
            // second trigger later (must not be reported)
            if r.chance(1, 2) && off + 2 < len {
                let j = off + 1 + r.usize_below(len - off - 1);
                buf[j] = *r.pick(trig);
            }
            let mut start = 0;
            while start <= off + 1 && start <= len {
                for end in [off, off + 1, off + 2, len, len + 5, start + 15, start + 16, start + 17, start + 31, start + 32, start + 33, start + 48] {
                    emit_find(emit, op, &buf, start, end);
                }
                start += if start + 2 >= off { 1 } else { stride };
            }
            emit_find(emit, op, &buf, len, len + 1);
            emit_find(emit, op, &buf, len + 3, len + 9);
        }
    }
    // --- find_newline / count_leading_spaces: position of first LF / first non-space at every offset
    for off in 0..=max_off + 30 {
        let tails: &[usize] = if quick { &[0, 1, 15, 16, 17, 33] } else { &[0, 1, 7, 15, 16, 17, 31, 32, 33] };
        for &tail in tails {
            let len = off + tail;
            // newline
            let mut buf: Vec<u8> = (0..len).map(|_| filler(r, b"\n")).collect();
            if tail > 0 {
                buf[off] = b'\n';
            }
            if r.chance(1, 3) && tail > 2 {
                buf[off + 1 + r.usize_below(tail - 1)] = b'\n';
            }
            if r.chance(1, 2) && off > 0 {
                buf[r.usize_below(off)] = b'\r';
            }
            let mut start = 0;
            while start <= len + 1 {
                emit(format!("C16 nl {} {start}", hex_bytes(&buf)));
                start += if start + 2 >= off { 1 } else { stride + 2 };
                if start > off + 2 && start < len {
                    start = len;
                }
            }
            // spaces: run of `off` spaces then a non-space (or end of input)
            let mut sp: Vec<u8> = vec![b' '; off];
            for _ in 0..tail {
                sp.push(if r.chance(1, 3) { b' ' } else { filler(r, b"") });
            }
            if tail > 0 {
                sp[off] = if r.chance(1, 3) { near(r, b" ") } else { filler(r, b" ") };
                if sp[off] == b' ' {
                    sp[off] = b'\t';
                }
            }
            let mut start = 0;
            while start <= len + 1 {
                emit(format!("C16 ls {} {start}", hex_bytes(&sp)));
                start += if (!quick && start < 34) || start < 2 || start + 2 >= off { 1 } else { stride + 4 };
                if start > off + 2 && start < len {
                    start = len;
                }
            }
        }
    }
    // --- random find / count requests with dense triggers and near-miss bytes
    let n_rand = if quick { 6_000 } else { 400_000 };
    for i in 0..n_rand {
        let cap = if r.chance(1, 8) { 200 } else { 80 };
        let len = r.usize_below(cap);
        let (op, trig): (&str, &[u8]) = match i % 4 {
            0 => ("fq", b"\"\\"),
            1 => ("sq", b"'"),
            2 => ("nl", b"\n"),
            _ => ("ls", b" "),
        };
        let dens = *r.pick(&[0u64, 1, 2, 8, 30, 100]);
        let buf: Vec<u8> = (0..len)
            .map(|_| {
                if op == "ls" {
                    if r.below(100) < dens { near(r, trig) } else { b' ' }
                } else if r.below(100) < dens {
                    *r.pick(trig)
                } else if r.chance(1, 6) {
                    near(r, trig)
                } else {
                    r.byte()
                }
            })
            .collect();
        let start = if r.chance(1, 10) { len + r.usize_below(3) } else { r.usize_below(len + 1) };
        match op {
            "fq" | "sq" => {
                let end = match r.below(5) {
                    0 => len,
                    1 => len + r.usize_below(40),
                    2 => start + *r.pick(&[0usize, 1, 15, 16, 17, 31, 32, 33, 47, 48, 49, 64]),
                    _ => r.usize_below(len + 2),
                };
                emit_find(emit, op, &buf, start, end);
            }
            _ => emit(format!("C16 {op} {} {start}", hex_bytes(&buf))),
        }
    }

    // --- classify: every classified byte (and near misses, and arbitrary bytes) at every lane
    let cls = b"\n\r:- \"'\\#";
    for lane in 0..34usize {
        for &c in cls.iter() {
            for len in [lane + 1, 16, 31, 32, 33, 40, 48] {
                if len <= lane {
                    continue;
                }
                let mut buf: Vec<u8> = (0..len).map(|_| filler(r, cls)).collect();
                buf[lane] = c;
                if r.chance(1, 2) {
                    let j = r.usize_below(len);
                    buf[j] = near(r, cls);
                }
                for off in [0usize, 1, lane.saturating_sub(15), len.saturating_sub(32), len.saturating_sub(16), len.saturating_sub(15)] {
                    emit(format!("C16 cl {} {} {off}", r.below(2), hex_bytes(&buf)));
                }
            }
        }
    }
    for _ in 0..(if quick { 2_000 } else { 100_000 }) {
        let len = r.usize_below(70);
        let dens = *r.pick(&[5u64, 30, 70, 100]);
        let buf: Vec<u8> = (0..len)
            .map(|_| if r.below(100) < dens { if r.chance(1, 4) { near(r, cls) } else { *r.pick(cls) } } else { r.byte() })
            .collect();
        emit(format!("C16 cl {} {} {}", r.below(2), hex_bytes(&buf), r.usize_below(len + 2)));
    }

    // --- parse_anchor_name: each terminator / colon+ws / bare colon at every offset
    let stops = b" \t\n\r[]{},";
    for off in 0..=max_off {
        for kind in 0..6u32 {
            let tail = *r.pick(&[0usize, 1, 2, 5, 15, 16, 17, 31, 32, 33, 40]);
            let len = off + 1 + tail;
            let avoid = b" \t\n\r[]{},:";
            let mut buf: Vec<u8> = (0..len).map(|_| filler(r, avoid)).collect();
            match kind {
                0 => buf[off] = *r.pick(stops),
                1 => {
                    // colon followed by whitespace
                    buf[off] = b':';
                    if off + 1 < len {
                        buf[off + 1] = *r.pick(b" \t\n\r");
                    }
                }
                2 => {
                    // bare colons (name characters) then a stop later
                    buf[off] = b':';
                    if off + 1 < len && r.chance(1, 2) {
                        buf[off + 1] = b':';
                    }
                    if tail > 2 {
                        let j = off + 2 + r.usize_below(tail - 1);
                        buf[j] = if r.chance(1, 2) { *r.pick(stops) } else { b':' };
                        if j + 1 < len && r.chance(1, 2) {
                            buf[j + 1] = *r.pick(b" \t\n\r");
                        }
                    }
                }
                3 => {
                    // colon as the very last byte of a chunk / of the input
                    buf[off] = b':';
                    buf.truncate(off + 1 + (r.below(2) as usize).min(tail));
                }
                4 => {
                    buf[off] = near(r, avoid);
                }
                _ => {
                    // colon first, definite terminator in the same chunk
                    buf[off] = b':';
                    if tail > 1 {
                        let j = off + 1 + r.usize_below(tail);
                        buf[j] = *r.pick(stops);
                    }
                }
            }
            let len = buf.len();
            let mut start = 0;
            while start <= len + 1 {
                emit(format!("C16 an {} {start}", hex_bytes(&buf)));
                start += if start + 2 >= off { 1 } else { stride + 2 };
                if start > off + 2 && start < len {
                    start = len;
                }
            }
        }
    }
    for _ in 0..(if quick { 3_000 } else { 200_000 }) {
        let cap = if r.chance(1, 8) { 200 } else { 90 };
        let len = r.usize_below(cap);
        let dens = *r.pick(&[0u64, 1, 3, 10, 40]);
        let buf: Vec<u8> = (0..len)
            .map(|_| {
                if r.below(100) < dens {
                    *r.pick(b" \t\n\r[]{},::::")
                } else if r.chance(1, 10) {
                    near(r, b" \t\n\r[]{},:")
                } else {
                    filler(r, b" \t\n\r[]{},:")
                }
            })
            .collect();
        emit(format!("C16 an {} {}", hex_bytes(&buf), r.usize_below(len + 2)));
    }

    // --- find_block_scalar_end: block-scalar shaped text, break forms LF / CR / CRLF, blank lines,
    //     long indentation runs (>= 16 / 32 spaces), dedent at every offset relative to chunk edges
    let n_be = if quick { 7_000 } else { 300_000 };
    for i in 0..n_be {
        let mut buf = Vec::new();
        let brk: &[u8] = match r.below(4) {
            0 => b"\n",
            1 => b"\r",
            2 => b"\r\n",
            _ => b"",
        };
        let min_indent = *r.pick(&[0usize, 1, 2, 2, 4, 8, 15, 16, 17, 31, 32, 33, 40]);
        // leading pad so the first break sits at a chosen offset
        let pad = r.usize_below(72);
        for _ in 0..pad {
            buf.push(filler(r, b"\n\r"));
        }
        let lines = r.usize_below(8);
        for _ in 0..lines {
            let b: &[u8] = if brk.is_empty() { *r.pick(&[&b"\n"[..], b"\r", b"\r\n"]) } else { brk };
            buf.extend_from_slice(b);
            let ind = match r.below(8) {
                0 => 0,
                1 => min_indent,
                2 => min_indent.saturating_sub(1),
                3 => min_indent + 1,
                4 => *r.pick(&[15usize, 16, 17, 31, 32, 33, 47, 48, 64, 65]),
                _ => r.usize_below(min_indent + 3),
            };
            for _ in 0..ind {
                buf.push(b' ');
            }
            match r.below(6) {
                0 => {} // blank line (only spaces)
                1 => buf.push(b'\t'),
                _ => {
                    for _ in 0..r.usize_below(if i % 7 == 0 { 40 } else { 12 }) {
                        buf.push(filler(r, b"\n\r"));
                    }
                }
            }
        }
        if r.chance(1, 3) {
            buf.extend_from_slice(*r.pick(&[&b"\n"[..], b"\r", b"\r\n", b" ", b"  \n"]));
        }
        let len = buf.len();
        let start = match r.below(4) {
            0 => 0,
            1 => pad.min(len),
            2 => r.usize_below(len + 2),
            _ => pad.saturating_sub(r.usize_below(34)).min(len),
        };
        emit(format!("C16 be {} {start} {min_indent}", hex_bytes(&buf)));
    }
    for _ in 0..(if quick { 1_500 } else { 100_000 }) {
        let len = r.usize_below(120);
        let buf: Vec<u8> = (0..len).map(|_| *r.pick(b"  \n\r  a \t\n x")).collect();
        emit(format!("C16 be {} {} {}", hex_bytes(&buf), r.usize_below(len + 2), r.usize_below(6)));
    }
}

// ------------------------------------------------------------------------------------------------
// whole-index inputs: YAML aimed at the kernels (long plain scalars, quoted strings with escapes /
// doubled quotes, block scalars, anchors / aliases, tags, comments, flow collections, LF / CR / CRLF
// breaks), padded so structural bytes straddle 16/32-byte boundaries
// ------------------------------------------------------------------------------------------------

struct Y<'a> {
    r: &'a mut Rng,
    out: Vec<u8>,
    brk: u8, // 0 LF, 1 CRLF, 2 CR, 3 mixed
    anchors: Vec<String>,
    budget: i32,
}

const WORDS: &[&str] = &[
    "alpha", "beta", "x", "key", "value", "long-ish", "a:b", "c#d", "http://h/p?q=1", "42", "-7", "3.14", "1e3", "true", "null",
    "~", "yes", "0x1F", "été", "日本", "it's", "say \"hi\"", "back\\slash", "tab\there", "q?", "-dash", "a,b", "[x]", "{y}",
    "per%cent", "at@", "`tick`", "*star", "&amp", "!bang", "|pipe", ">gt",
];

const SAFE: &[&str] = &[
    "alpha", "beta", "x1", "value", "long-ish", "a:b", "c#d", "http://h/p?q=1", "été", "日本", "it's", "q?", "per%cent", "at@",
    "x*y", "a&b", "v!", "a|b", "a>b", "semi;colon", "under_score", "dot.ted", "3.14x", "w", "http://h/p#frag", "#1f2e3d"
    , "issue#42", "a:#b", "x,#y", "z]#w", "tab\there", "t\t#glued-after-tab",
];

impl Y<'_> {
    fn nl(&mut self) {
        let k = if self.brk == 3 { self.r.below(3) as u8 } else { self.brk };
        match k {
            0 => self.out.push(b'\n'),
            1 => self.out.extend_from_slice(b"\r\n"),
            _ => self.out.push(b'\r'),
        }
    }
    fn ind(&mut self, n: usize) {
        for _ in 0..n {
            self.out.push(b' ');
        }
    }
    fn word(&mut self) -> String {
        (*self.r.pick(WORDS)).to_string()
    }
    /// plain text safe inside a plain scalar (no ": ", no " #", no leading indicator)
    fn plain_text(&mut self, min_len: usize) -> String {
        let mut t = String::new();
        loop {
            t.push_str(*self.r.pick(SAFE));
            if t.len() >= min_len && !self.r.chance(1, 3) {
                break;
            }
            t.push(' ');
        }
        t
    }
    /// pad with a comment line so that the next byte lands at a chosen offset mod 32
    fn align(&mut self, indent: usize) {
        let target = *self.r.pick(&[0usize, 1, 15, 16, 17, 30, 31]);
        let cur = self.out.len() % 32;
        let mut need = (target + 64 - cur - indent % 32) % 32;
        if need < 3 {
            need += 32;
        }
        let bl = if self.brk == 1 { 2 } else { 1 };
        if self.brk == 3 || need < bl + 1 {
            return;
        }
        self.out.push(b'#');
        for _ in 0..need - 1 - bl {
            let c = *self.r.pick(b"abc xyz:-#'\"\\");
            self.out.push(c);
        }
        self.nl();
        self.ind(indent);
    }
    fn dq(&mut self) -> String {
        let mut t = String::from("\"");
        let n = self.r.below(6) + 1;
        for i in 0..n {
            if i > 0 {
                t.push(' ');
            }
            match self.r.below(12) {
                0 => t.push_str("\\\""),
                1 => t.push_str("\\\\"),
                2 => t.push_str("\\n"),
                3 => t.push_str("\\t"),
                4 => t.push_str("\\x41"),
                5 => t.push_str("\\u00e9"),
                6 => t.push_str("it's"),
                7 => t.push_str(": # -"),
                8 => {
                    let l = self.r.usize_below(50);
                    for _ in 0..l {
                        t.push(*self.r.pick(&['a', 'b', ' ', 'z', 'é']));
                    }
                }
                9 => t.push_str("\\/"),
                _ => {
                    let w = self.plain_text(0);
                    t.push_str(&w);
                }
            }
        }
        t.push('"');
        t
    }
    fn sq(&mut self) -> String {
        let mut t = String::from("'");
        let n = self.r.below(6) + 1;
        for i in 0..n {
            if i > 0 {
                t.push(' ');
            }
            match self.r.below(8) {
                0 => t.push_str("''"),
                1 => t.push_str("\"dq\""),
                2 => t.push_str("back\\slash"),
                3 => t.push_str(": # -"),
                4 => {
                    let l = self.r.usize_below(50);
                    for _ in 0..l {
                        t.push(*self.r.pick(&['a', 'b', ' ', 'z', '日']));
                    }
                }
                5 => t.push_str("'' ''"),
                _ => {
                    let w = self.plain_text(0).replace('\'', "''");
                    t.push_str(&w);
                }
            }
        }
        t.push('\'');
        t
    }
    fn props(&mut self) -> String {
        let mut t = String::new();
        if self.r.chance(1, 5) {
            let name = match self.r.below(6) {
                0 => "a".to_string(),
                1 => format!("anc{}", self.r.below(9)),
                2 => "with:colon".to_string(),
                3 => format!("a-very-long-anchor-name-{}-crossing-a-chunk", self.r.below(99)),
                4 => "é1".to_string(),
                _ => format!("n{}", self.anchors.len()),
            };
            t.push('&');
            t.push_str(&name);
            t.push(' ');
            self.anchors.push(name);
        }
        if self.r.chance(1, 6) {
            t.push_str(*self.r.pick(&["!!str ", "!!int ", "!custom ", "!<tag:example.com,2000:x> ", "!e!t ", "! ", "!!map ", "!!seq "]));
        }
        t
    }
    fn trailing_comment(&mut self) {
        if self.r.chance(1, 6) {
            // s-separate-in-line before a comment: spaces, tabs and mixes of both (#410)
            let sep: &[u8] = *self.r.pick(&[&b" "[..], b"  ", b"   ", b"\t", b"\t\t", b" \t", b"\t ", b" \t \t", b"\t  "]);
            self.out.extend_from_slice(sep);
            self.out.push(b'#');
            let l = self.r.usize_below(40);
            for _ in 0..l {
                let c = *self.r.pick(b"abc xyz:-#'\"\\[]{}");
                self.out.push(c);
            }
        }
    }
    fn flow(&mut self, depth: u32) -> String {
        let mut t = String::new();
        let seq = self.r.chance(1, 2);
        t.push(if seq { '[' } else { '{' });
        let n = self.r.below(4);
        for i in 0..n {
            if i > 0 {
                t.push_str(if self.r.chance(1, 4) { "," } else { ", " });
            }
            if !seq {
                let k = self.plain_text(0);
                t.push_str(&k.replace(' ', "_"));
                t.push_str(": ");
            }
            match self.r.below(7) {
                0 if depth < 2 => {
                    let f = self.flow(depth + 1);
                    t.push_str(&f)
                }
                1 => {
                    let q = self.dq();
                    t.push_str(&q)
                }
                2 => {
                    let q = self.sq();
                    t.push_str(&q)
                }
                3 if !self.anchors.is_empty() => {
                    t.push('*');
                    let a = self.r.pick(&self.anchors).clone();
                    t.push_str(&a);
                    t.push(' ');
                }
                _ => {
                    let w = self.r.pick(&["1", "two", "x y", "null", "3.5", "a:b", "true"]).to_string();
                    t.push_str(&w)
                }
            }
        }
        t.push(if seq { ']' } else { '}' });
        t
    }
    /// value on the rest of the current line (after "key: " or "- "), then a line break
    fn value(&mut self, indent: usize, depth: u32) {
        self.budget -= 1;
        let p = self.props();
        self.out.extend_from_slice(p.as_bytes());
        let choice = if self.budget <= 0 || depth > 4 { self.r.below(6) } else { self.r.below(12) };
        match choice {
            0 => {
                let ml = *self.r.pick(&[0usize, 0, 10, 30, 60, 100]);
                let t = self.plain_text(ml);
                self.out.extend_from_slice(t.as_bytes());
                self.trailing_comment();
                self.nl();
            }
            1 => {
                let t = self.dq();
                self.out.extend_from_slice(t.as_bytes());
                self.trailing_comment();
                self.nl();
            }
            2 => {
                let t = self.sq();
                self.out.extend_from_slice(t.as_bytes());
                self.trailing_comment();
                self.nl();
            }
            3 => {
                let w = self.word();
                self.out.extend_from_slice(w.as_bytes());
                self.trailing_comment();
                self.nl();
            }
            4 => {
                if !self.anchors.is_empty() && p.is_empty() {
                    self.out.push(b'*');
                    let a = self.r.pick(&self.anchors).clone();
                    self.out.extend_from_slice(a.as_bytes());
                } else {
                    self.out.extend_from_slice(b"~");
                }
                self.trailing_comment();
                self.nl();
            }
            5 => {
                let f = self.flow(0);
                self.out.extend_from_slice(f.as_bytes());
                self.trailing_comment();
                self.nl();
            }
            6 | 7 => {
                // block scalar
                self.out.push(*self.r.pick(b"|>"));
                let extra = match self.r.below(5) {
                    0 => "-",
                    1 => "+",
                    2 => "2",
                    3 => "2-",
                    _ => "",
                };
                self.out.extend_from_slice(extra.as_bytes());
                self.trailing_comment();
                self.nl();
                let ci = if extra.starts_with('2') { indent + 2 } else { indent + self.r.range(1, 4) as usize };
                let lines = self.r.below(6) + 1;
                for _ in 0..lines {
                    match self.r.below(8) {
                        0 => {} // empty line
                        1 => {
                            let n = self.r.usize_below(ci + 3);
                            self.ind(n); // spaces-only line
                        }
                        2 => {
                            let n = ci + *self.r.pick(&[14usize, 15, 16, 17, 30, 31, 32, 33]);
                            self.ind(n);
                            self.out.extend_from_slice(b"deep");
                        }
                        _ => {
                            let n = ci + self.r.usize_below(3);
                            self.ind(n);
                            let ml = *self.r.pick(&[0usize, 5, 20, 45, 70]);
                            let t = self.plain_text(ml);
                            self.out.extend_from_slice(t.as_bytes());
                            if self.r.chance(1, 5) {
                                self.out.extend_from_slice(b": # not a comment \" ' \\");
                            }
                        }
                    }
                    self.nl();
                }
            }
            8 | 9 => {
                self.trailing_comment();
                self.nl();
                let i2 = indent + self.r.range(1, 4) as usize;
                self.mapping(i2, depth + 1);
            }
            10 => {
                self.trailing_comment();
                self.nl();
                let i2 = if self.r.chance(1, 2) { indent } else { indent + 2 };
                self.sequence(i2, depth + 1);
            }
            _ => {
                // multi-line plain scalar (continuation line)
                let t = self.plain_text(20);
                self.out.extend_from_slice(t.as_bytes());
                self.nl();
                self.ind(indent + 2);
                let t = self.plain_text(10);
                self.out.extend_from_slice(t.as_bytes());
                self.nl();
            }
        }
    }
    fn key(&mut self) -> String {
        match self.r.below(8) {
            0 => self.dq(),
            1 => self.sq(),
            2 => format!("k{}", self.r.below(100)),
            3 => "a-rather-long-key-name-that-goes-on-and-on-past-thirty-two-bytes".to_string(),
            _ => {
                let t = self.plain_text(0);
                t.replace(' ', "_")
            }
        }
    }
    fn mapping(&mut self, indent: usize, depth: u32) {
        let n = self.r.below(4) + 1;
        for _ in 0..n {
            if self.r.chance(1, 10) {
                // comment-only / blank line
                if self.r.chance(1, 2) {
                    let k = self.r.usize_below(indent + 2);
                    self.ind(k);
                    self.out.extend_from_slice(b"# own-line comment");
                }
                self.nl();
            }
            self.ind(indent);
            if self.r.chance(1, 6) {
                self.align(indent);
            }
            if self.r.chance(1, 12) {
                self.out.extend_from_slice(b"? ");
                let k = self.key();
                self.out.extend_from_slice(k.as_bytes());
                self.nl();
                self.ind(indent);
                self.out.extend_from_slice(b": ");
            } else {
                let k = self.key();
                self.out.extend_from_slice(k.as_bytes());
                self.out.push(b':');
                let sp = *self.r.pick(&[1usize, 1, 1, 2, 9, 17, 33]);
                self.ind(sp);
            }
            self.value(indent, depth);
        }
    }
    fn sequence(&mut self, indent: usize, depth: u32) {
        let n = self.r.below(4) + 1;
        for _ in 0..n {
            self.ind(indent);
            self.out.push(b'-');
            if self.r.chance(1, 8) && depth < 4 {
                // "- key: v" compact mapping / nested "- - x"
                self.out.push(b' ');
                if self.r.chance(1, 2) {
                    let k = self.key();
                    self.out.extend_from_slice(k.as_bytes());
                    self.out.extend_from_slice(b": ");
                    self.value(indent + 2, depth + 1);
                } else {
                    self.out.extend_from_slice(b"- ");
                    self.value(indent + 2, depth + 1);
                }
            } else if self.r.chance(1, 12) {
                self.nl(); // bare dash
            } else {
                let sp = *self.r.pick(&[1usize, 1, 1, 3, 16, 32]);
                self.ind(sp);
                self.value(indent, depth);
            }
        }
    }
    fn document(&mut self) {
        match self.r.below(8) {
            0 => self.sequence(0, 0),
            1 => {
                let sp = self.r.usize_below(3);
                self.ind(sp);
                self.value(0, 0)
            }
            _ => self.mapping(0, 0),
        }
    }
}

fn gen_yaml(r: &mut Rng) -> Vec<u8> {
    let brk = *r.pick(&[0u8, 0, 0, 1, 1, 2, 2, 3]);
    let budget = *r.pick(&[3i32, 6, 12, 25]);
    let mut y = Y { r, out: Vec::new(), brk, anchors: Vec::new(), budget };
    if y.r.chance(1, 12) {
        y.out.extend_from_slice(b"%YAML 1.2");
        y.nl();
        y.out.extend_from_slice(b"---");
        y.nl();
    } else if y.r.chance(1, 5) {
        y.out.extend_from_slice(b"---");
        if y.r.chance(1, 3) {
            y.out.extend_from_slice(b" # doc comment");
        }
        y.nl();
    }
    let docs = if y.r.chance(1, 5) { y.r.below(3) + 2 } else { 1 };
    for d in 0..docs {
        if d > 0 {
            if y.r.chance(1, 3) {
                y.out.extend_from_slice(b"...");
                y.nl();
            }
            y.out.extend_from_slice(b"---");
            y.nl();
            y.budget = budget;
        }
        y.document();
    }
    if y.r.chance(1, 6) {
        // no final line break
        while matches!(y.out.last(), Some(b'\n' | b'\r')) {
            y.out.pop();
        }
    }
    y.out
}

fn mutate(r: &mut Rng, mut b: Vec<u8>) -> Vec<u8> {
    let n = r.below(4) + 1;
    for _ in 0..n {
        if b.is_empty() {
            b.push(r.byte());
            continue;
        }
        let i = r.usize_below(b.len());
        match r.below(9) {
            0 => b[i] = r.byte(),
            1 => b[i] = *r.pick(b"\n\r:-#\"'\\ &*!|>[]{},?%@`\t"),
            2 => {
                b.remove(i);
            }
            3 => b.insert(i, *r.pick(b"\n\r:-#\"'\\ &*!|>[]{},?\t")),
            4 => {
                // delete a range
                let l = r.usize_below(20).min(b.len() - i);
                b.drain(i..i + l);
            }
            5 => {
                // LF -> CR everywhere after i
                for c in b[i..].iter_mut() {
                    if *c == b'\n' {
                        *c = b'\r';
                    }
                }
            }
            6 => {
                // insert a run that shifts everything past a chunk boundary
                let l = *r.pick(&[1usize, 15, 16, 17, 31, 32, 33]);
                let c = *r.pick(b" a");
                for _ in 0..l {
                    b.insert(i, c);
                }
            }
            7 => b.truncate(i),
            _ => {
                // duplicate a slice
                let l = r.usize_below(30).min(b.len() - i);
                let sl: Vec<u8> = b[i..i + l].to_vec();
                let j = r.usize_below(b.len() + 1);
                for (k, c) in sl.into_iter().enumerate() {
                    b.insert(j + k, c);
                }
            }
        }
    }
    b
}

fn gen_idx(tier: Tier, r: &mut Rng, emit: &mut dyn FnMut(String)) {
    let quick = tier == Tier::Quick;
    // fixed shapes at every alignment: `off` filler bytes between a prefix and the interesting byte
    let shapes: &[(&[u8], &[u8])] = &[
        (b"k: \"", b"\\\" tail\"\nz: 1\n"),
        (b"k: '", b"'' tail'\nz: 1\n"),
        (b"k: ", b" # comment\nz: 1\n"),
        (b"k: ", b": v\n"),
        (b"k: ", b"\rz: 1\r"),
        (b"k: ", b"\r\nz: 1\r\n"),
        (b"k: |\n  ", b"\n  more\nz: 1\n"),
        (b"k: |\r  ", b"\r  more\rz: 1\r"),
        (b"k: &", b" v\nz: *a\n"),
        (b"- &", b": v\n"),
        (b"k: [", b", 2]\n"),
        (b"k: >\n", b"text\nz: 1\n"),
    ];
    let step = if quick { 3 } else { 1 };
    for (pre, post) in shapes {
        let mut off = 0;
        while off <= 70 {
            let mut b = pre.to_vec();
            let fill = if pre.ends_with(b">\n") { b' ' } else { b'a' };
            for _ in 0..off {
                b.push(fill);
            }
            b.extend_from_slice(post);
            emit(format!("C16 idx {}", hex_bytes(&b)));
            off += step;
        }
    }
    // plain scalars meeting `#`: every separator class before the `#` (tab, several tabs/spaces mixed,
    // none = glued to text, after `:` `,` `]`), the `#` at every offset 1..=66 from the start of the
    // scalar scan (every lane of the first and following 16-/32-byte chunks, including lane 0 and the
    // last lane), key / value / sequence-item / flow / document-root context, and 0, >= 32 and >= 64
    // bytes of input remaining after the line (the vector skip engages only with >= 32 remaining)
    let seps: &[&[u8]] = &[b"\t", b" ", b"\t\t", b" \t", b"\t ", b"  \t  ", b"", b":", b",", b"]", b"\t:", b":\t"];
    let tails: &[usize] = if quick { &[0, 40, 80] } else { &[0, 8, 31, 32, 40, 63, 64, 80] };
    let mut combo = 0usize;
    for k in 1..=66usize {
        for (si, sep) in seps.iter().enumerate() {
            for ctx in 0..7usize {
                for (ti, &tail) in tails.iter().enumerate() {
                    combo += 1;
                    // quick: one context and one tail per (k, sep), rotating; thorough: everything
                    if quick && (ctx != (k + si) % 7 || ti != (k + 2 * si) % tails.len()) {
                        continue;
                    }
                    let mut text: Vec<u8> = Vec::new();
                    let body_len = k.saturating_sub(sep.len()).max(1);
                    for j in 0..body_len {
                        text.push(if j % 9 == 8 && j + 1 < body_len { b' ' } else { b'a' + (j % 7) as u8 });
                    }
                    text.extend_from_slice(sep);
                    text.extend_from_slice(b"# note: x, [y] {z}");
                    let mut b: Vec<u8> = Vec::new();
                    match ctx {
                        0 => {
                            b.extend_from_slice(b"k: ");
                            b.extend_from_slice(&text);
                            b.extend_from_slice(b"\nz: 1\n");
                        }
                        1 => {
                            // scalar in key position (comment before the colon is an error: compared too)
                            b.extend_from_slice(&text[..body_len]);
                            b.extend_from_slice(b": v");
                            b.extend_from_slice(sep);
                            b.extend_from_slice(b"# c\nz: 1\n");
                        }
                        2 => {
                            b.extend_from_slice(b"- ");
                            b.extend_from_slice(&text);
                            b.extend_from_slice(b"\n- z\n");
                        }
                        3 => {
                            b.extend_from_slice(b"k: [");
                            b.extend_from_slice(&text);
                            b.extend_from_slice(b"\n  , z]\n");
                        }
                        4 => {
                            b.extend_from_slice(b"{k: ");
                            b.extend_from_slice(&text);
                            b.extend_from_slice(b"\n}\n");
                        }
                        5 => {
                            b.extend_from_slice(&text);
                            b.extend_from_slice(b"\n");
                        }
                        _ => {
                            b.extend_from_slice(b"k:\n  nested: ");
                            b.extend_from_slice(&text);
                            b.extend_from_slice(b"\r\n  z: 1\r\n");
                        }
                    }
                    if tail > 0 {
                        match ctx {
                            2 => b.extend_from_slice(b"- "),
                            5 => b.extend_from_slice(b"--- "),
                            6 => b.extend_from_slice(b"  p: "),
                            _ => b.extend_from_slice(b"p: "),
                        }
                        for _ in 0..tail {
                            b.push(b'q');
                        }
                        b.push(b'\n');
                    }
                    emit(format!("C16 idx {}", hex_bytes(&b)));
                }
            }
        }
    }
    let _ = combo;
    let n = if quick { 2500 } else { 60_000 };
    for i in 0..n {
        let mut b = gen_yaml(r);
        if b.len() > 60_000 {
            b.truncate(60_000);
        }
        match i % 10 {
            0..=5 => {}
            6 | 7 | 8 => b = mutate(r, b),
            _ => {
                // arbitrary bytes over a YAML-heavy alphabet
                let l = r.usize_below(120);
                b = (0..l)
                    .map(|_| if r.chance(1, 12) { r.byte() } else { *r.pick(b"ab  \n\n\r:-#\"'\\&*!|>[]{},? x1") })
                    .collect();
            }
        }
        emit(format!("C16 idx {}", hex_bytes(&b)));
    }
}

pub fn gen(tier: Tier, r: &mut Rng, emit: &mut dyn FnMut(String)) {
    let mut ri = r.fork("idx");
    gen_kernels(tier, r, emit);
    gen_idx(tier, &mut ri, emit);
}
