//! C16 — YAML index does not depend on the SIMD dispatch level.
//!
//! Kernel ops: every scanning kernel of `yaml::simd` driven per dispatch level (AVX2 / SSE2 /
//! scalar kernels through `verif_hooks::yaml_simd`) and through the build's public entry point.
//! Answer slots are `avx2;sse2;scalar;public` (fewer where a level has no kernel). A slot whose
//! level is not compiled into this build (`scalar-yaml`) or not available on the CPU is filled by
//! the build's public entry point, so every slot is always an implementation answer that the model
//! of that level has to reproduce.
//!
//! `idx`: whole-index digest, compared across build/dispatch variants by tools/run.py
//! (`xvariant_ops`).
use crate::rng::Rng;
use crate::util::*;
use crate::Tier;
use succinctly::verif_hooks::yaml_simd as k;
use succinctly::yaml::simd;

pub fn tables() -> Vec<(&'static str, String)> {
    vec![]
}

#[cfg(all(target_arch = "x86_64", not(feature = "scalar-yaml")))]
mod lv {
    use succinctly::verif_hooks::yaml_simd::x86 as x;
    use succinctly::yaml::simd::YamlCharClass;
    pub const HAS_X86: bool = true;
    pub fn fq_a(b: &[u8], s: usize, e: usize) -> Option<Option<usize>> {
        x::find_quote_or_escape_avx2(b, s, e)
    }
    pub fn fq_s(b: &[u8], s: usize, e: usize) -> Option<Option<usize>> {
        Some(x::find_quote_or_escape_sse2(b, s, e))
    }
    pub fn sq_a(b: &[u8], s: usize, e: usize) -> Option<Option<usize>> {
        x::find_single_quote_avx2(b, s, e)
    }
    pub fn sq_s(b: &[u8], s: usize, e: usize) -> Option<Option<usize>> {
        Some(x::find_single_quote_sse2(b, s, e))
    }
    pub fn nl_a(b: &[u8], s: usize) -> Option<Option<usize>> {
        x::find_newline_avx2(b, s)
    }
    pub fn nl_s(b: &[u8], s: usize) -> Option<Option<usize>> {
        Some(x::find_newline_sse2(b, s))
    }
    pub fn ls_a(b: &[u8], s: usize) -> Option<usize> {
        x::count_leading_spaces_avx2(b, s)
    }
    pub fn ls_s(b: &[u8], s: usize) -> Option<usize> {
        Some(x::count_leading_spaces_sse2(b, s))
    }
    pub fn be_a(b: &[u8], s: usize, m: usize) -> Option<usize> {
        x::find_block_scalar_end_avx2(b, s, m)
    }
    pub fn be_s(b: &[u8], s: usize, m: usize) -> Option<usize> {
        Some(x::find_block_scalar_end_sse2(b, s, m))
    }
    pub fn an_a(b: &[u8], s: usize) -> Option<usize> {
        x::parse_anchor_name_avx2(b, s)
    }
    pub fn avx2_enabled() -> Option<bool> {
        Some(x::avx2_enabled())
    }
    pub fn avx2_detected() -> bool {
        x::avx2_detected()
    }
    pub fn clamp(v: &str) -> Option<bool> {
        x::parse_simd_clamp(v)
    }
    fn cs(c: YamlCharClass) -> String {
        format!(
            "{:x}/{:x}/{:x}/{:x}/{:x}/{:x}/{:x}/{:x}/{:x}/{:x}",
            c.width,
            c.newlines,
            c.carriage_returns,
            c.colons,
            c.hyphens,
            c.spaces,
            c.quotes_double,
            c.quotes_single,
            c.backslashes,
            c.hash
        )
    }
    /// `avx2-kernel;sse2-kernel;ok|BAD(public)`: the public classifier must return exactly what the
    /// kernel selected by `avx2_enabled()` (and the 32-byte availability rule) returns.
    pub fn classify(has_cr: bool, b: &[u8], o: usize) -> Option<String> {
        let (a, s, p) = if has_cr {
            (
                x::classify_yaml_chars_avx2::<true>(b, o),
                x::classify_yaml_chars_sse2::<true>(b, o),
                succinctly::yaml::simd::classify_yaml_chars::<true>(b, o),
            )
        } else {
            (
                x::classify_yaml_chars_avx2::<false>(b, o),
                x::classify_yaml_chars_sse2::<false>(b, o),
                succinctly::yaml::simd::classify_yaml_chars::<false>(b, o),
            )
        };
        if !x::avx2_detected() {
            return None;
        }
        let f = |c: Option<YamlCharClass>| c.map(cs).unwrap_or_else(|| "-".into());
        let expect = if x::avx2_enabled() && a.is_some() { f(a) } else { f(s) };
        let pv = f(p);
        let ps = if pv == expect { "ok".to_string() } else { format!("BAD({pv})") };
        Some(format!("{};{};{}", f(a), f(s), ps))
    }
}

#[cfg(not(all(target_arch = "x86_64", not(feature = "scalar-yaml"))))]
mod lv {
    pub const HAS_X86: bool = false;
    pub fn fq_a(_: &[u8], _: usize, _: usize) -> Option<Option<usize>> {
        None
    }
    pub fn fq_s(_: &[u8], _: usize, _: usize) -> Option<Option<usize>> {
        None
    }
    pub fn sq_a(_: &[u8], _: usize, _: usize) -> Option<Option<usize>> {
        None
    }
    pub fn sq_s(_: &[u8], _: usize, _: usize) -> Option<Option<usize>> {
        None
    }
    pub fn nl_a(_: &[u8], _: usize) -> Option<Option<usize>> {
        None
    }
    pub fn nl_s(_: &[u8], _: usize) -> Option<Option<usize>> {
        None
    }
    pub fn ls_a(_: &[u8], _: usize) -> Option<usize> {
        None
    }
    pub fn ls_s(_: &[u8], _: usize) -> Option<usize> {
        None
    }
    pub fn be_a(_: &[u8], _: usize, _: usize) -> Option<usize> {
        None
    }
    pub fn be_s(_: &[u8], _: usize, _: usize) -> Option<usize> {
        None
    }
    pub fn an_a(_: &[u8], _: usize) -> Option<usize> {
        None
    }
    pub fn avx2_enabled() -> Option<bool> {
        None
    }
    pub fn avx2_detected() -> bool {
        false
    }
    pub fn clamp(_: &str) -> Option<bool> {
        None
    }
    pub fn classify(_: bool, _: &[u8], _: usize) -> Option<String> {
        None
    }
}

/// In-harness oracle for `cl` where no classifier exists in this build (`scalar-yaml`, or no
/// AVX2): bit i ⇔ byte == c. Keeps the request streams of all variants aligned; not counted as
/// implementation evidence.
fn classify_oracle(has_cr: bool, b: &[u8], o: usize) -> String {
    let one = |w: usize| -> String {
        if o + w > b.len() {
            return "-".into();
        }
        let m = |c: u8| -> u64 { (0..w).fold(0u64, |acc, i| acc | (((b[o + i] == c) as u64) << i)) };
        format!(
            "{:x}/{:x}/{:x}/{:x}/{:x}/{:x}/{:x}/{:x}/{:x}/{:x}",
            w,
            m(b'\n'),
            if has_cr { m(b'\r') } else { 0 },
            m(b':'),
            m(b'-'),
            m(b' '),
            m(b'"'),
            m(b'\''),
            m(b'\\'),
            m(b'#')
        )
    };
    format!("{};{};ok", one(32), one(16))
}

fn clamp_oracle(v: &str) -> Option<bool> {
    match v.trim().to_ascii_lowercase().as_str() {
        "scalar" | "sse2" | "sse42" | "sse4.2" => Some(true),
        "avx2" | "" => Some(false),
        _ => None,
    }
}

pub fn exec(a: &[&str]) -> String {
    match a[0] {
        // fq <buf> <start> <end> -> avx2;sse2;scalar;public
        "fq" => {
            let (b, s, e) = (parse_bytes(a[1]), num(a[2]), num(a[3]));
            let p = simd::find_quote_or_escape(&b, s, e);
            format!(
                "{};{};{};{}",
                opt(lv::fq_a(&b, s, e).unwrap_or(p)),
                opt(lv::fq_s(&b, s, e).unwrap_or(p)),
                opt(k::find_quote_or_escape_scalar(&b, s, e)),
                opt(p)
            )
        }
        "sq" => {
            let (b, s, e) = (parse_bytes(a[1]), num(a[2]), num(a[3]));
            let p = simd::find_single_quote(&b, s, e);
            format!(
                "{};{};{};{}",
                opt(lv::sq_a(&b, s, e).unwrap_or(p)),
                opt(lv::sq_s(&b, s, e).unwrap_or(p)),
                opt(k::find_single_quote_scalar(&b, s, e)),
                opt(p)
            )
        }
        // nl <buf> <start>
        "nl" => {
            let (b, s) = (parse_bytes(a[1]), num(a[2]));
            let p = simd::find_newline(&b, s);
            format!(
                "{};{};{};{}",
                opt(lv::nl_a(&b, s).unwrap_or(p)),
                opt(lv::nl_s(&b, s).unwrap_or(p)),
                opt(k::find_newline_scalar(&b, s)),
                opt(p)
            )
        }
        // ls <buf> <start>
        "ls" => {
            let (b, s) = (parse_bytes(a[1]), num(a[2]));
            let p = simd::count_leading_spaces(&b, s);
            format!(
                "{};{};{};{}",
                lv::ls_a(&b, s).unwrap_or(p),
                lv::ls_s(&b, s).unwrap_or(p),
                k::count_leading_spaces_scalar(&b, s),
                p
            )
        }
        // be <buf> <start> <min_indent> -> avx2 kernel;sse2 kernel;scalar kernel;public
        "be" => {
            let (b, s, m) = (parse_bytes(a[1]), num(a[2]), num(a[3]));
            let p = simd::find_block_scalar_end(&b, s, m).expect("always Some");
            format!(
                "{};{};{};{}",
                lv::be_a(&b, s, m).unwrap_or(p),
                lv::be_s(&b, s, m).unwrap_or(p),
                k::find_block_scalar_end_scalar(&b, s, m),
                p
            )
        }
        // an <buf> <start> -> avx2 kernel;scalar kernel;public
        "an" => {
            let (b, s) = (parse_bytes(a[1]), num(a[2]));
            let p = simd::parse_anchor_name(&b, s);
            format!("{};{};{}", lv::an_a(&b, s).unwrap_or(p), k::parse_anchor_name_scalar(&b, s), p)
        }
        // cl <has_cr> <buf> <offset> -> avx2 kernel;sse2 kernel;ok
        "cl" => {
            let (h, b, o) = (a[1] == "1", parse_bytes(a[2]), num(a[3]));
            lv::classify(h, &b, o).unwrap_or_else(|| classify_oracle(h, &b, o))
        }
        // clamp <utf8 hex> -> T|F|-
        "clamp" => {
            let v = String::from_utf8(parse_bytes(a[1])).expect("utf8");
            let r = if lv::HAS_X86 { lv::clamp(&v) } else { clamp_oracle(&v) };
            match r {
                Some(true) => "T".into(),
                Some(false) => "F".into(),
                None => "-".into(),
            }
        }
        // disp <detected> <env hex|none> -> avx2_enabled() of this process when the request
        // describes this process, else the value recomputed through parse_simd_clamp
        "disp" => {
            let det = a[1] == "1";
            let env = if a[2] == "none" { None } else { Some(String::from_utf8(parse_bytes(a[2])).expect("utf8")) };
            let here = (lv::avx2_detected(), std::env::var("SUCCINCTLY_SIMD").ok());
            let clamp = |v: &str| if lv::HAS_X86 { lv::clamp(v) } else { clamp_oracle(v) };
            let r = match lv::avx2_enabled() {
                Some(en) if here == (det, env.clone()) => en,
                _ => det && !env.as_deref().is_some_and(|v| clamp(v) == Some(true)),
            };
            (r as u8).to_string()
        }
        _ => "BAD-OP".into(),
    }
}

// ------------------------------------------------------------------------------------------------
// generators
// ------------------------------------------------------------------------------------------------

const FILL: &[u8] = b"abcxyz019_.-~/@!$%&*+;<=>?^|ABCZ\x7f\x80\xff\x00\x01\x1f\x21\x23\x26\x28\x3b\x5a\x5e\x7c\x7e\xa2\xdc";

/// Filler byte that is none of the bytes in `avoid`.
fn filler(r: &mut Rng, avoid: &[u8]) -> u8 {
    loop {
        let c = if r.chance(1, 8) { r.byte() } else { *r.pick(FILL) };
        if !avoid.contains(&c) {
            return c;
        }
    }
}

fn emit_find(emit: &mut dyn FnMut(String), op: &str, buf: &[u8], start: usize, end: usize) {
    emit(format!("C16 {op} {} {start} {end}", hex_bytes(buf)));
}

/// Near-miss bytes for each trigger set: differ in one bit / adjacent code, or have the high bit set.
fn near(r: &mut Rng, trig: &[u8]) -> u8 {
    let t = *r.pick(trig);
    match r.below(4) {
        0 => t ^ (1 << r.below(8)),
        1 => t.wrapping_add(1),
        2 => t.wrapping_sub(1),
        _ => t | 0x80,
    }
}

pub fn gen(tier: Tier, r: &mut Rng, emit: &mut dyn FnMut(String)) {
    let quick = tier == Tier::Quick;
    // --- dispatch state of this process + clamp spellings
    let env = std::env::var("SUCCINCTLY_SIMD").ok();
    emit(format!(
        "C16 disp {} {}",
        lv::avx2_detected() as u8,
        env.as_deref().map(|v| hex_bytes(v.as_bytes())).unwrap_or_else(|| "none".into())
    ));
    for d in [0, 1] {
        for v in ["none", "-", "73736532", "61767832", "7363616c6172", "626f677573"] {
            emit(format!("C16 disp {d} {v}"));
        }
    }
    let words = [
        "scalar", "sse2", "sse42", "sse4.2", "avx2", "", "SSE2", "Sse4.2", " sse2 ", "\tAVX2\n", "sse", "sse3", "sse41", "sse4_2",
        "avx", "avx512", "neon", "none", "off", "0", "1", "scalar ", "s calar", "sse2\u{a0}", "\u{2003}sse42\u{3000}", "\u{85}avx2",
        "ſse2", "SCALAR", "sse4.2.", "sse2,avx2", "\u{feff}sse2", "\u{200b}sse2", "\u{1680}scalar\u{2028}", "sse２",
    ];
    for w in words {
        emit(format!("C16 clamp {}", hex_bytes(w.as_bytes())));
    }
    for _ in 0..(if quick { 300 } else { 5000 }) {
        // mutate a spelling: case flips, surrounding whitespace (ASCII and Unicode), one edit
        let mut s: Vec<char> = r.pick(&words[..6]).chars().collect();
        for c in s.iter_mut() {
            if r.chance(1, 3) {
                *c = c.to_ascii_uppercase();
            }
        }
        if r.chance(1, 4) && !s.is_empty() {
            let i = r.usize_below(s.len());
            match r.below(3) {
                0 => {
                    s.remove(i);
                }
                1 => s.insert(i, *r.pick(&['2', '.', 's', ' ', 'x', '\u{a0}'])),
                _ => s[i] = *r.pick(&['2', '4', '.', 'e', 'E', 'ſ', 'K']),
            }
        }
        let ws = ['\t', '\n', '\u{b}', '\u{c}', '\r', ' ', '\u{85}', '\u{a0}', '\u{1680}', '\u{2000}', '\u{200a}', '\u{2028}', '\u{2029}', '\u{202f}', '\u{205f}', '\u{3000}', '\u{200b}', '\u{feff}', '\u{1c}', '\u{1f}'];
        for _ in 0..r.below(3) {
            s.insert(0, *r.pick(&ws));
        }
        for _ in 0..r.below(3) {
            s.push(*r.pick(&ws));
        }
        let st: String = s.into_iter().collect();
        emit(format!("C16 clamp {}", hex_bytes(st.as_bytes())));
    }

    // --- find kernels: trigger byte at every offset 0..=70, every start, ends inside/after chunk
    let max_off = 70usize;
    let stride = if quick { 3 } else { 1 };
    for (op, trig) in [("fq", &b"\"\\"[..]), ("sq", &b"'"[..])] {
        for off in 0..=max_off {
            let len = off + 1 + r.usize_below(40);
            let mut buf: Vec<u8> = (0..len).map(|_| filler(r, trig)).collect();
            buf[off] = *r.pick(trig);
            // second trigger later (must not be reported)
            if r.chance(1, 2) && off + 2 < len {
                let j = off + 1 + r.usize_below(len - off - 1);
                buf[j] = *r.pick(trig);
            }
            let mut start = 0;
            while start <= off + 1 && start <= len {
                for end in [off, off + 1, off + 2, len, len + 5, start + 15, start + 16, start + 17, start + 31, start + 32, start + 33, start + 48] {
                    emit_find(emit, op, &buf, start, end);
                }
                start += if start + 2 >= off { 1 } else { stride };
            }
            emit_find(emit, op, &buf, len, len + 1);
            emit_find(emit, op, &buf, len + 3, len + 9);
        }
    }
    // --- find_newline / count_leading_spaces: position of first LF / first non-space at every offset
    for off in 0..=max_off + 30 {
        for tail in [0usize, 1, 7, 15, 16, 17, 31, 32, 33] {
            let len = off + tail;
            // newline
            let mut buf: Vec<u8> = (0..len).map(|_| filler(r, b"\n")).collect();
            if tail > 0 {
                buf[off] = b'\n';
            }
            if r.chance(1, 3) && tail > 2 {
                buf[off + 1 + r.usize_below(tail - 1)] = b'\n';
            }
            if r.chance(1, 2) && off > 0 {
                buf[r.usize_below(off)] = b'\r';
            }
            let mut start = 0;
            while start <= len + 1 {
                emit(format!("C16 nl {} {start}", hex_bytes(&buf)));
                start += if start + 2 >= off { 1 } else { stride + 2 };
                if start > off + 2 && start < len {
                    start = len;
                }
            }
            // spaces: run of `off` spaces then a non-space (or end of input)
            let mut sp: Vec<u8> = vec![b' '; off];
            for _ in 0..tail {
                sp.push(if r.chance(1, 3) { b' ' } else { filler(r, b"") });
            }
            if tail > 0 {
                sp[off] = if r.chance(1, 3) { near(r, b" ") } else { filler(r, b" ") };
                if sp[off] == b' ' {
                    sp[off] = b'\t';
                }
            }
            let mut start = 0;
            while start <= len + 1 {
                emit(format!("C16 ls {} {start}", hex_bytes(&sp)));
                start += if start < 34 || start + 2 >= off { 1 } else { stride + 4 };
                if start > off + 2 && start < len {
                    start = len;
                }
            }
        }
    }
    // --- random find / count requests with dense triggers and near-miss bytes
    let n_rand = if quick { 6_000 } else { 400_000 };
    for i in 0..n_rand {
        let cap = if r.chance(1, 8) { 200 } else { 80 };
        let len = r.usize_below(cap);
        let (op, trig): (&str, &[u8]) = match i % 4 {
            0 => ("fq", b"\"\\"),
            1 => ("sq", b"'"),
            2 => ("nl", b"\n"),
            _ => ("ls", b" "),
        };
        let dens = *r.pick(&[0u64, 1, 2, 8, 30, 100]);
        let buf: Vec<u8> = (0..len)
            .map(|_| {
                if op == "ls" {
                    if r.below(100) < dens { near(r, trig) } else { b' ' }
                } else if r.below(100) < dens {
                    *r.pick(trig)
                } else if r.chance(1, 6) {
                    near(r, trig)
                } else {
                    r.byte()
                }
            })
            .collect();
        let start = if r.chance(1, 10) { len + r.usize_below(3) } else { r.usize_below(len + 1) };
        match op {
            "fq" | "sq" => {
                let end = match r.below(5) {
                    0 => len,
                    1 => len + r.usize_below(40),
                    2 => start + *r.pick(&[0usize, 1, 15, 16, 17, 31, 32, 33, 47, 48, 49, 64]),
                    _ => r.usize_below(len + 2),
                };
                emit_find(emit, op, &buf, start, end);
            }
            _ => emit(format!("C16 {op} {} {start}", hex_bytes(&buf))),
        }
    }

    // --- classify: every classified byte (and near misses, and arbitrary bytes) at every lane
    let cls = b"\n\r:- \"'\\#";
    for lane in 0..34usize {
        for &c in cls.iter() {
            for len in [lane + 1, 16, 31, 32, 33, 40, 48] {
                if len <= lane {
                    continue;
                }
                let mut buf: Vec<u8> = (0..len).map(|_| filler(r, cls)).collect();
                buf[lane] = c;
                if r.chance(1, 2) {
                    let j = r.usize_below(len);
                    buf[j] = near(r, cls);
                }
                for off in [0usize, 1, lane.saturating_sub(15), len.saturating_sub(32), len.saturating_sub(16), len.saturating_sub(15)] {
                    emit(format!("C16 cl {} {} {off}", r.below(2), hex_bytes(&buf)));
                }
            }
        }
    }
    for _ in 0..(if quick { 2_000 } else { 100_000 }) {
        let len = r.usize_below(70);
        let dens = *r.pick(&[5u64, 30, 70, 100]);
        let buf: Vec<u8> = (0..len)
            .map(|_| if r.below(100) < dens { if r.chance(1, 4) { near(r, cls) } else { *r.pick(cls) } } else { r.byte() })
            .collect();
        emit(format!("C16 cl {} {} {}", r.below(2), hex_bytes(&buf), r.usize_below(len + 2)));
    }

    // --- parse_anchor_name: each terminator / colon+ws / bare colon at every offset
    let stops = b" \t\n\r[]{},";
    for off in 0..=max_off {
        for kind in 0..6u32 {
            let tail = *r.pick(&[0usize, 1, 2, 5, 15, 16, 17, 31, 32, 33, 40]);
            let len = off + 1 + tail;
            let avoid = b" \t\n\r[]{},:";
            let mut buf: Vec<u8> = (0..len).map(|_| filler(r, avoid)).collect();
            match kind {
                0 => buf[off] = *r.pick(stops),
                1 => {
                    // colon followed by whitespace
                    buf[off] = b':';
                    if off + 1 < len {
                        buf[off + 1] = *r.pick(b" \t\n\r");
                    }
                }
                2 => {
                    // bare colons (name characters) then a stop later
                    buf[off] = b':';
                    if off + 1 < len && r.chance(1, 2) {
                        buf[off + 1] = b':';
                    }
                    if tail > 2 {
                        let j = off + 2 + r.usize_below(tail - 1);
                        buf[j] = if r.chance(1, 2) { *r.pick(stops) } else { b':' };
                        if j + 1 < len && r.chance(1, 2) {
                            buf[j + 1] = *r.pick(b" \t\n\r");
                        }
                    }
                }
                3 => {
                    // colon as the very last byte of a chunk / of the input
                    buf[off] = b':';
                    buf.truncate(off + 1 + (r.below(2) as usize).min(tail));
                }
                4 => {
                    buf[off] = near(r, avoid);
                }
                _ => {
                    // colon first, definite terminator in the same chunk
                    buf[off] = b':';
                    if tail > 1 {
                        let j = off + 1 + r.usize_below(tail);
                        buf[j] = *r.pick(stops);
                    }
                }
            }
            let len = buf.len();
            let mut start = 0;
            while start <= len + 1 {
                emit(format!("C16 an {} {start}", hex_bytes(&buf)));
                start += if start + 2 >= off { 1 } else { stride + 2 };
                if start > off + 2 && start < len {
                    start = len;
                }
            }
        }
    }
    for _ in 0..(if quick { 3_000 } else { 200_000 }) {
        let cap = if r.chance(1, 8) { 200 } else { 90 };
        let len = r.usize_below(cap);
        let dens = *r.pick(&[0u64, 1, 3, 10, 40]);
        let buf: Vec<u8> = (0..len)
            .map(|_| {
                if r.below(100) < dens {
                    *r.pick(b" \t\n\r[]{},::::")
                } else if r.chance(1, 10) {
                    near(r, b" \t\n\r[]{},:")
                } else {
                    filler(r, b" \t\n\r[]{},:")
                }
            })
            .collect();
        emit(format!("C16 an {} {}", hex_bytes(&buf), r.usize_below(len + 2)));
    }

    // --- find_block_scalar_end: block-scalar shaped text, break forms LF / CR / CRLF, blank lines,
    //     long indentation runs (>= 16 / 32 spaces), dedent at every offset relative to chunk edges
    let n_be = if quick { 7_000 } else { 300_000 };
    for i in 0..n_be {
        let mut buf = Vec::new();
        let brk: &[u8] = match r.below(4) {
            0 => b"\n",
            1 => b"\r",
            2 => b"\r\n",
            _ => b"",
        };
        let min_indent = *r.pick(&[0usize, 1, 2, 2, 4, 8, 15, 16, 17, 31, 32, 33, 40]);
        // leading pad so the first break sits at a chosen offset
        let pad = r.usize_below(72);
        for _ in 0..pad {
            buf.push(filler(r, b"\n\r"));
        }
        let lines = r.usize_below(8);
        for _ in 0..lines {
            let b: &[u8] = if brk.is_empty() { *r.pick(&[&b"\n"[..], b"\r", b"\r\n"]) } else { brk };
            buf.extend_from_slice(b);
            let ind = match r.below(8) {
                0 => 0,
                1 => min_indent,
                2 => min_indent.saturating_sub(1),
                3 => min_indent + 1,
                4 => *r.pick(&[15usize, 16, 17, 31, 32, 33, 47, 48, 64, 65]),
                _ => r.usize_below(min_indent + 3),
            };
            for _ in 0..ind {
                buf.push(b' ');
            }
            match r.below(6) {
                0 => {} // blank line (only spaces)
                1 => buf.push(b'\t'),
                _ => {
                    for _ in 0..r.usize_below(if i % 7 == 0 { 40 } else { 12 }) {
                        buf.push(filler(r, b"\n\r"));
                    }
                }
            }
        }
        if r.chance(1, 3) {
            buf.extend_from_slice(*r.pick(&[&b"\n"[..], b"\r", b"\r\n", b" ", b"  \n"]));
        }
        let len = buf.len();
        let start = match r.below(4) {
            0 => 0,
            1 => pad.min(len),
            2 => r.usize_below(len + 2),
            _ => pad.saturating_sub(r.usize_below(34)).min(len),
        };
        emit(format!("C16 be {} {start} {min_indent}", hex_bytes(&buf)));
    }
    for _ in 0..(if quick { 1_500 } else { 100_000 }) {
        let len = r.usize_below(120);
        let buf: Vec<u8> = (0..len).map(|_| *r.pick(b"  \n\r  a \t\n x")).collect();
        emit(format!("C16 be {} {} {}", hex_bytes(&buf), r.usize_below(len + 2), r.usize_below(6)));
    }
}
