//! C14 — YAML loading reproduces the value of every well-formed document.
//!
//! `load <br> <ndocs> <tokens> <features> <hex>`: a presentation-annotated stream (tokens) and the bytes the
//! harness rendered from it; the real loader (`YamlIndex::build` + full `YamlValue` traversal,
//! `to_json` per document) is run on the bytes and compared with the generated trees in-process.
//! `suite <id> <yaml hex> <json hex>`: a YAML Test Suite case.  `raw <hex>`: arbitrary bytes.
use crate::rng::Rng;
use crate::util::*;
use crate::Tier;

#[path = "yamlgen.rs"]
pub mod yamlgen;
use yamlgen::*;

pub fn tables() -> Vec<(&'static str, String)> {
    vec![]
}

fn short(e: &str) -> String {
    e.replace(' ', "_").chars().take(120).collect()
}

pub fn exec(a: &[&str]) -> String {
    match a[0] {
        "load" => {
            let ps = parse_stream(a[1], a[2], a[3]);
            let bytes = parse_bytes(a[5]);
            let want: Vec<Tree> = ps.docs.iter().map(|d| d.root.tree()).collect();
            match load_docs(&bytes) {
                Err(e) => format!("ERR {}", short(&e)),
                Ok((docs, jsons)) => {
                    let verdict = if docs == want { "TREE-OK" } else { "TREE-DIFF" };
                    let json_ok = jsons.len() == want.len() && jsons.iter().zip(&want).all(|(j, w)| read_json(j).as_ref() == Some(w));
                    format!("{} {} {}", canon_docs(&docs), verdict, if json_ok { "JSON-OK" } else { "JSON-DIFF" })
                }
            }
        }
        "suite" => {
            let bytes = parse_bytes(a[2]);
            let want = String::from_utf8(parse_bytes(a[3])).ok().and_then(|s| read_json_stream(&s));
            match load_docs(&bytes) {
                Err(e) => format!("ERR {}", short(&e)),
                Ok((docs, _)) => match want {
                    Some(w) if w == docs => format!("{} SUITE-OK", canon_docs(&docs)),
                    Some(w) => format!("{} SUITE-DIFF want {}", canon_docs(&docs), canon_docs(&w)),
                    None => format!("{} SUITE-?", canon_docs(&docs)),
                },
            }
        }
        "raw" => match load_docs(&parse_bytes(a[1])) {
            Err(e) => format!("ERR {}", short(&e)),
            Ok((docs, _)) => canon_docs(&docs),
        },
        _ => "BAD-OP".into(),
    }
}

pub fn emit_stream(ps: &PStream, emit: &mut dyn FnMut(String)) {
    let bytes = render(ps);
    emit(format!("C14 load {} {} {}", stream_wire(ps), features(ps), hex_bytes(&bytes)));
}

pub fn gen(tier: Tier, r: &mut Rng, emit: &mut dyn FnMut(String)) {
    let n = if tier == Tier::Quick { 5_000 } else { 150_000 };
    // layer-restricted streams first (flow + double quoted; block + plain/quoted), then everything
    for i in 0..n {
        let o = match i % 6 {
            0 => GenOpts { block_scalars: false, comments: false, breaks: false, anchors: false, multidoc: false, max_depth: 4 },
            1 => GenOpts { block_scalars: true, comments: false, breaks: false, anchors: false, multidoc: false, max_depth: 4 },
            2 => GenOpts { block_scalars: true, comments: true, breaks: true, anchors: false, multidoc: false, max_depth: 3 },
            _ => ALL,
        };
        let mut g = Gen::new(r, o);
        let ps = g.stream();
        emit_stream(&ps, emit);
    }
}
