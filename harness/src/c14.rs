//! C14 — YAML loading reproduces the value of every well-formed document.
//!
//! `load <br> <ndocs> <tokens> <features> <hex>`: a presentation-annotated stream (tokens) and the bytes the
//! harness rendered from it; the real loader (`YamlIndex::build` + full `YamlValue` traversal,
//! `to_json` per document) is run on the bytes and compared with the generated trees in-process.
//! `suite <id> <yaml hex> <json hex>`: a YAML Test Suite case.  `raw <hex>`: arbitrary bytes.
use crate::rng::Rng;
use crate::util::*;
use crate::Tier;

#[path = "yamlgen.rs"]
pub mod yamlgen;
use yamlgen::*;

pub fn tables() -> Vec<(&'static str, String)> {
    vec![]
}

fn short(e: &str) -> String {
    e.split_whitespace().collect::<Vec<_>>().join("_").chars().take(160).collect()
}

pub fn exec(a: &[&str]) -> String {
    match a[0] {
        "load" => {
            let ps = parse_stream(a[1], a[2], a[3]);
            let bytes = parse_bytes(a[5]);
            let want: Vec<Tree> = ps.docs.iter().map(|d| d.root.tree()).collect();
            match load_docs(&bytes) {
                Err(e) => format!("ERR {}", short(&e)),
                Ok((docs, jsons)) => {
                    let verdict = if docs == want { "TREE-OK" } else { "TREE-DIFF" };
                    let json_ok = jsons.len() == want.len() && jsons.iter().zip(&want).all(|(j, w)| read_json(j).as_ref() == Some(w));
                    format!("{} {} {}", canon_docs(&docs), verdict, if json_ok { "JSON-OK" } else { "JSON-DIFF" })
                }
            }
        }
        // cli <br> <ndocs> <tokens> <features> <hex>: `succinctly yq -o json -I 0 .` on the rendered bytes
        "cli" => {
            let ps = parse_stream(a[1], a[2], a[3]);
            let bytes = parse_bytes(a[5]);
            let want: Vec<Tree> = ps.docs.iter().map(|d| d.root.tree()).collect();
            let Ok(cli) = std::env::var("SV_CLI") else { return "NO-CLI".into() };
            use std::io::Write;
            use std::process::{Command, Stdio};
            let Ok(mut ch) = Command::new(cli).args(["yq", "-o", "json", "-I", "0", "."]).env("NO_COLOR", "1").stdin(Stdio::piped()).stdout(Stdio::piped()).stderr(Stdio::piped()).spawn() else {
                return "SPAWN-FAILED".into();
            };
            let mut si = ch.stdin.take().unwrap();
            let w = std::thread::spawn(move || {
                let _ = si.write_all(&bytes);
            });
            let out = ch.wait_with_output().unwrap();
            let _ = w.join();
            let text = String::from_utf8_lossy(&out.stdout);
            let got: Vec<Option<Tree>> = text.lines().map(read_json).collect();
            if out.status.code() == Some(0) && got.len() == want.len() && got.iter().zip(&want).all(|(g, w)| g.as_ref() == Some(w)) {
                format!("CLI-OK {}", want.len())
            } else {
                let bad = got.iter().zip(&want).position(|(g, w)| g.as_ref() != Some(w));
                format!("CLI-DIFF rc={:?} docs={}/{} first-bad={:?} err={}", out.status.code(), got.len(), want.len(), bad, short(&String::from_utf8_lossy(&out.stderr)))
            }
        }
        "suite" => {
            let bytes = parse_bytes(a[2]);
            let want = String::from_utf8(parse_bytes(a[3])).ok().and_then(|s| read_json_stream(&s));
            match load_docs(&bytes) {
                Err(e) => format!("ERR {}", short(&e)),
                Ok((docs, _)) => match want {
                    Some(w) if w == docs => format!("{} SUITE-OK", canon_docs(&docs)),
                    Some(w) => format!("{} SUITE-DIFF want {}", canon_docs(&docs), canon_docs(&w)),
                    None => format!("{} SUITE-?", canon_docs(&docs)),
                },
            }
        }
        "raw" => match load_docs(&parse_bytes(a[1])) {
            Err(e) => format!("ERR {}", short(&e)),
            Ok((docs, _)) => canon_docs(&docs),
        },
        _ => "BAD-OP".into(),
    }
}

pub fn emit_stream(ps: &PStream, emit: &mut dyn FnMut(String)) {
    let bytes = render(ps);
    emit(format!("C14 load {} {} {}", stream_wire(ps), features(ps), hex_bytes(&bytes)));
}

pub fn gen(tier: Tier, r: &mut Rng, emit: &mut dyn FnMut(String)) {
    let n = if tier == Tier::Quick { 5_000 } else { 150_000 };
    // layer-restricted streams first (flow + double quoted; block + plain/quoted), then everything
    for i in 0..n {
        let o = match i % 6 {
            0 => GenOpts { block_scalars: false, comments: false, breaks: false, anchors: false, multidoc: false, max_depth: 4 },
            1 => GenOpts { block_scalars: true, comments: false, breaks: false, anchors: false, multidoc: false, max_depth: 4 },
            2 => GenOpts { block_scalars: true, comments: true, breaks: true, anchors: false, multidoc: false, max_depth: 3 },
            _ => ALL,
        };
        let mut g = Gen::new(r, o);
        let ps = g.stream();
        emit_stream(&ps, emit);
    }
    // deep nesting around multi-line block scalars (content indentation 15…65 columns)
    for _ in 0..(if tier == Tier::Quick { 150 } else { 4_000 }) {
        let ps = deep_stream(r);
        emit_stream(&ps, emit);
    }
    // indentless sequences under the first / middle / last key of compact mappings, nested
    for _ in 0..(if tier == Tier::Quick { 300 } else { 6_000 }) {
        let ps = indentless_stream(r);
        emit_stream(&ps, emit);
    }
    // CLI leg: multi-document batches (one process per batch) of documents without a presentation
    // feature that has a recorded loader finding (those are exercised by the library leg above)
    if std::env::var("SV_CLI").is_ok() {
        let batches = if tier == Tier::Quick { 40 } else { 1_500 };
        for _ in 0..batches {
            let br = *r.pick(&[Break::Lf, Break::Lf, Break::Crlf, Break::Cr]);
            let mut docs: Vec<PDoc> = Vec::new();
            let mut tries = 0;
            while docs.len() < 15 && tries < 200 {
                tries += 1;
                let mut d = {
                    let mut g = Gen::new(r, ALL);
                    g.doc(docs.is_empty())
                };
                if let Some(p) = docs.last() {
                    if ends_keep(&p.root) && !p.end_marker && d.fill.first() == Some(&Filler::Blank) {
                        d.fill.clear();
                    }
                }
                let single = PStream { docs: vec![PDoc { marker: true, ..d.clone() }], br };
                if features(&single) == "-" {
                    docs.push(d);
                }
            }
            let ps = PStream { docs, br };
            emit(format!("C14 cli {} {} {}", stream_wire(&ps), features(&ps), hex_bytes(&render(&ps))));
        }
    }
}
