//! C13 — UTF-8 validation: dispatcher, scalar, broadword, simd wrapper, raw broadword and raw AVX2
//! accept kernels, `line_and_column`, `skip_ascii`, `sequence_length`, code-point codec.
use crate::rng::Rng;
use crate::util::*;
use crate::Tier;
use succinctly::text::utf8 as u;
use succinctly::verif_hooks as h;

pub fn tables() -> Vec<(&'static str, String)> {
    Vec::new()
}

fn res(r: &Result<(), u::Utf8Error>, sep: char) -> String {
    match r {
        Ok(()) => "ok".into(),
        Err(e) => format!("{:?}{sep}{}{sep}{}{sep}{}", e.kind, e.offset, e.line, e.column),
    }
}

pub fn exec(a: &[&str]) -> String {
    match a[0] {
        // val <bytes> -> ok | <Kind> <offset> <line> <col>      (validate_utf8, the dispatcher)
        "val" => {
            let bs = parse_bytes(a[1]);
            res(&u::validate_utf8(&bs), ' ')
        }
        // valx <bytes> -> every engine, strict
        "valx" => {
            let bs = parse_bytes(a[1]);
            let simd = u::validate_utf8_simd(&bs);
            // raw AVX2 kernel; on a host without AVX2 the library's own fallback verdict stands in
            let avx2 = h::validate_utf8_avx2(&bs).unwrap_or(simd.is_ok());
            format!(
                "sc={} bw={} simd={} disp={} bwacc={} avx2={}",
                res(&u::validate_utf8_scalar(&bs), ':'),
                res(&u::validate_utf8_broadword(&bs), ':'),
                res(&simd, ':'),
                res(&u::validate_utf8(&bs), ':'),
                h::verif_broadword_accepts(&bs) as u8,
                avx2 as u8
            )
        }
        // lc <bytes> <offset> -> line,col     (panics when offset > len)
        "lc" => {
            let bs = parse_bytes(a[1]);
            let (l, c) = h::verif_line_and_column(&bs, num(a[2]));
            format!("{l},{c}")
        }
        // skip <bytes> <pos> -> skip_ascii(input, pos)
        "skip" => {
            let bs = parse_bytes(a[1]);
            h::verif_skip_ascii(&bs, num(a[2])).to_string()
        }
        "seqlen" => u::sequence_length(a[1].parse::<u8>().unwrap()).to_string(),
        // dec <bytes> -> cp,len | -
        "dec" => match u::decode_code_point(&parse_bytes(a[1])) {
            Some((cp, n)) => format!("{cp},{n}"),
            None => "-".into(),
        },
        // enc <cp> -> <4-byte buffer hex> <len> | -
        "enc" => match u::encode_code_point(a[1].parse::<u32>().unwrap()) {
            Some((buf, n)) => format!("{} {n}", hex_bytes(&buf)),
            None => "-".into(),
        },
        _ => "BAD-OP".into(),
    }
}

/// Interesting sequences: valid at range edges, overlongs, surrogates, > U+10FFFF, invalid leads,
/// stray continuations, truncations, bad continuation at each index, multi-violation.
const SEQS: &[&[u8]] = &[
    // valid, at the edges of every row of Table 3-7
    &[0xC2, 0x80], &[0xDF, 0xBF], &[0xE0, 0xA0, 0x80], &[0xE0, 0xBF, 0xBF], &[0xE1, 0x80, 0x80],
    &[0xEC, 0xBF, 0xBF], &[0xED, 0x80, 0x80], &[0xED, 0x9F, 0xBF], &[0xEE, 0x80, 0x80], &[0xEF, 0xBF, 0xBF],
    &[0xF0, 0x90, 0x80, 0x80], &[0xF0, 0xBF, 0xBF, 0xBF], &[0xF1, 0x80, 0x80, 0x80], &[0xF3, 0xBF, 0xBF, 0xBF],
    &[0xF4, 0x80, 0x80, 0x80], &[0xF4, 0x8F, 0xBF, 0xBF], &[0x7F], &[0x00], &[0x0A],
    // overlong
    &[0xC0, 0x80], &[0xC0, 0xBF], &[0xC1, 0x80], &[0xC1, 0xBF], &[0xE0, 0x80, 0x80], &[0xE0, 0x9F, 0xBF],
    &[0xF0, 0x80, 0x80, 0x80], &[0xF0, 0x8F, 0xBF, 0xBF],
    // surrogates
    &[0xED, 0xA0, 0x80], &[0xED, 0xAF, 0xBF], &[0xED, 0xB0, 0x80], &[0xED, 0xBF, 0xBF],
    // above U+10FFFF
    &[0xF4, 0x90, 0x80, 0x80], &[0xF4, 0xBF, 0xBF, 0xBF], &[0xF5, 0x80, 0x80, 0x80], &[0xF7, 0xBF, 0xBF, 0xBF],
    // never-valid leads
    &[0xF8], &[0xF8, 0x88, 0x80, 0x80, 0x80], &[0xFB], &[0xFC], &[0xFE], &[0xFF], &[0xC0], &[0xC1], &[0xF5],
    // stray continuations
    &[0x80], &[0xBF], &[0x80, 0x80], &[0xA0], &[0x90],
    // truncations (also produced by placing any sequence at the very end)
    &[0xC2], &[0xDF], &[0xE0], &[0xE0, 0xA0], &[0xE1], &[0xE1, 0x80], &[0xED], &[0xED, 0x80], &[0xEF, 0xBF],
    &[0xF0], &[0xF0, 0x90], &[0xF0, 0x90, 0x80], &[0xF1], &[0xF1, 0x80], &[0xF1, 0x80, 0x80], &[0xF4], &[0xF4, 0x8F],
    &[0xF4, 0x8F, 0xBF], &[0xF7], &[0xF5, 0x80],
    // bad continuation byte at each index
    &[0xC2, 0x41], &[0xC3, 0x28], &[0xC2, 0xC2], &[0xC2, 0x0A], &[0xDF, 0xC0], &[0xDF, 0xFF], &[0xC2, 0x7F],
    &[0xE1, 0x41, 0x80], &[0xE1, 0x80, 0x41], &[0xE1, 0xC2, 0x80], &[0xE1, 0x80, 0xC0], &[0xE1, 0x80, 0x0A],
    &[0xE0, 0xA0, 0x7F], &[0xE0, 0x7F, 0x80], &[0xEF, 0xC0, 0x80],
    &[0xF1, 0x41, 0x80, 0x80], &[0xF1, 0x80, 0x41, 0x80], &[0xF1, 0x80, 0x80, 0x41], &[0xF1, 0x80, 0x80, 0xC2],
    &[0xF1, 0x80, 0x80, 0x0A], &[0xF1, 0x80, 0x0A, 0x80], &[0xF4, 0x8F, 0xBF, 0x7F], &[0xF0, 0x90, 0xE1, 0x80],
    // several rules at once
    &[0xED, 0xA0, 0x41], &[0xE0, 0x80, 0x41], &[0xF0, 0x80, 0x80, 0x41], &[0xF4, 0x90, 0x41, 0x80], &[0xF5, 0x41, 0x80, 0x80],
    &[0xC0, 0x41], &[0xC1, 0x0A], &[0xF7, 0x80, 0x80, 0x0A], &[0xE0, 0x80], &[0xED, 0xA0], &[0xF4, 0x90], &[0xF0, 0x80, 0x80],
    &[0xF8, 0x80], &[0xE1, 0x80, 0xE1, 0x80, 0x80], &[0xF1, 0x80, 0x80, 0xF1, 0x80, 0x80, 0x80],
];

const FILL: &[&[u8]] = &[b"a", &[0xC3, 0xA9], &[0xE2, 0x82, 0xAC], &[0xF0, 0x9F, 0x98, 0x80]];

/// `n` bytes of valid filler built from `unit` (padded with ASCII so the length is exact), with
/// newlines sprinkled over ASCII positions when `nl`.
fn filler(r: &mut Rng, unit: &[u8], n: usize, nl: bool) -> Vec<u8> {
    let mut v = Vec::with_capacity(n);
    while v.len() + unit.len() <= n {
        if unit.len() == 1 {
            v.push(if nl && r.chance(1, 6) { b'\n' } else { b'a' + (r.below(26) as u8) });
        } else if nl && r.chance(1, 9) {
            v.push(b'\n');
        } else {
            v.extend_from_slice(unit);
        }
    }
    while v.len() < n {
        v.push(if nl && r.chance(1, 4) { b'\n' } else { b'x' });
    }
    v
}

fn scalar_value(r: &mut Rng) -> u32 {
    loop {
        let cp = match r.below(8) {
            0 | 1 => r.below(0x80) as u32,
            2 => r.range(0x80, 0x7FF) as u32,
            3 | 4 => r.range(0x800, 0xFFFF) as u32,
            5 => r.range(0x10000, 0x10FFFF) as u32,
            6 => *r.pick(&[0x7Fu32, 0x80, 0x7FF, 0x800, 0xFFF, 0x1000, 0xCFFF, 0xD000, 0xD7FF, 0xE000, 0xFFFF, 0x10000,
                           0x3FFFF, 0x40000, 0xFFFFF, 0x100000, 0x10FFFF, 0x0A]),
            _ => r.below(0x30) as u32,
        };
        if char::from_u32(cp).is_some() {
            return cp;
        }
    }
}

fn valid_string(r: &mut Rng, chars: usize) -> Vec<u8> {
    let mut s = String::new();
    for _ in 0..chars {
        s.push(char::from_u32(scalar_value(r)).unwrap());
    }
    s.into_bytes()
}

fn emit_both(emit: &mut dyn FnMut(String), bs: &[u8]) {
    emit(format!("C13 val {}", hex_bytes(bs)));
    emit(format!("C13 valx {}", hex_bytes(bs)));
}

pub fn gen(tier: Tier, r: &mut Rng, emit: &mut dyn FnMut(String)) {
    let quick = tier == Tier::Quick;
    for b in 0..=255u32 {
        emit(format!("C13 seqlen {b}"));
    }
    // ---- exhaustive: all strings of length <= 2 (thorough: every lead pair + sampled third/fourth)
    emit_both(emit, &[]);
    for b0 in 0..=255u8 {
        emit_both(emit, &[b0]);
        emit(format!("C13 dec {}", hex_bytes(&[b0])));
    }
    let step2 = if quick { 1 } else { 1 };
    for b0 in (0x00..=0xFFu8).step_by(step2) {
        for b1 in 0..=255u8 {
            if quick && b0 < 0x80 && b0 % 16 != 0xA {
                continue;
            }
            emit(format!("C13 valx {}", hex_bytes(&[b0, b1])));
            if b0 >= 0x80 {
                emit(format!("C13 val {}", hex_bytes(&[b0, b1])));
                emit(format!("C13 dec {}", hex_bytes(&[b0, b1])));
            }
        }
    }
    // three and four bytes: every lead >= 0xE0 with boundary second / third / fourth bytes
    let edge: &[u8] = &[0x00, 0x0A, 0x7F, 0x80, 0x8F, 0x90, 0x9F, 0xA0, 0xBF, 0xC0, 0xC2, 0xE0, 0xED, 0xF0, 0xF4, 0xFF];
    for b0 in 0xC0..=0xFFu8 {
        for &b1 in edge {
            for &b2 in edge {
                emit_both(emit, &[b0, b1, b2]);
                emit(format!("C13 dec {}", hex_bytes(&[b0, b1, b2])));
                if b0 >= 0xF0 || !quick {
                    for &b3 in &[0x41u8, 0x7F, 0x80, 0xBF, 0xC0] {
                        emit_both(emit, &[b0, b1, b2, b3]);
                        emit(format!("C13 dec {}", hex_bytes(&[b0, b1, b2, b3])));
                    }
                }
            }
        }
    }
    // ---- every interesting sequence at every offset 0..=70 inside each filler
    let reps = if quick { 1 } else { 6 };
    for _ in 0..reps {
        for seq in SEQS {
            for (fi, unit) in FILL.iter().enumerate() {
                for off in 0..=70usize {
                    if quick && fi > 0 && (off * 7 + seq.len() + fi) % 3 != 0 {
                        continue;
                    }
                    let nl = r.chance(1, 2);
                    let mut v = filler(r, unit, off, nl);
                    v.extend_from_slice(seq);
                    let tail = match r.below(4) {
                        0 => 0,
                        1 => r.usize_below(4),
                        _ => r.usize_below(70),
                    };
                    let unit2 = *r.pick(FILL);
                    v.extend(filler(r, unit2, tail, false));
                    emit_both(emit, &v);
                }
            }
        }
    }
    // ---- valid strings (accept path of every engine), lengths around block multiples
    let n_valid = if quick { 1500 } else { 60_000 };
    for i in 0..n_valid {
        let chars = if i % 3 == 0 { r.usize_below(12) } else { r.usize_below(90) };
        let v = valid_string(r, chars);
        emit_both(emit, &v);
        // one mutation: flip / delete / insert a byte
        if !v.is_empty() {
            let mut m = v.clone();
            let p = r.usize_below(m.len());
            match r.below(4) {
                0 => m[p] ^= 1 << r.below(8),
                1 => {
                    m.remove(p);
                }
                2 => m.insert(p, *r.pick(&[0x80u8, 0xBF, 0xC0, 0xC2, 0xE0, 0xED, 0xF0, 0xF4, 0xF5, 0xFF, 0x0A])),
                _ => m.truncate(p),
            }
            emit_both(emit, &m);
        }
    }
    // ---- random bytes (malformed stream)
    let n_rand = if quick { 3000 } else { 150_000 };
    for i in 0..n_rand {
        let len = r.usize_below(if i % 4 == 0 { 100 } else { 12 });
        let v: Vec<u8> = (0..len)
            .map(|_| match r.below(6) {
                0 => r.byte(),
                1 => 0x80 | (r.byte() & 0x3F),
                2 => *r.pick(&[0xC2u8, 0xDF, 0xE0, 0xE1, 0xED, 0xEE, 0xF0, 0xF1, 0xF4, 0xC0, 0xF5, 0xF8]),
                3 => b'\n',
                _ => r.byte() & 0x7F,
            })
            .collect();
        emit_both(emit, &v);
    }
    // ---- line_and_column directly: newline-like bytes, every offset (incl. one past the end)
    let n_lc = if quick { 250 } else { 8000 };
    for _ in 0..n_lc {
        let len = r.usize_below(45);
        let v: Vec<u8> = (0..len)
            .map(|_| *r.pick(&[0x0Au8, 0x0A, 0x0B, 0x8A, 0x0D, 0x00, 0x01, 0x09, 0x1A, 0x2A, b'a', 0xFF, 0x7F, 0x80]))
            .collect();
        for off in 0..=len + 1 {
            emit(format!("C13 lc {} {off}", hex_bytes(&v)));
        }
    }
    // ---- very many line breaks before the error / the offset (line counters that batch or narrow
    // the per-word count): 256*k +- 1 newlines in blank / 1- / 2- / 7- / 8- / 9-byte lines (newline in
    // one fixed lane, or walking through every lane), lead-in of 0..7 bytes, prefixes crossing 2040-byte
    // and 64 KiB boundaries, and long prefixes without any newline (column > 65535)
    let bads: &[&[u8]] = &[&[0xED, 0xA0, 0x80], &[0xFF], &[0xC3, 0x28], &[0xE2, 0x82], &[0x80]];
    let mut many = |r: &mut Rng, prefix: Vec<u8>, emit: &mut dyn FnMut(String)| {
        let mut v = prefix;
        let plen = v.len();
        v.extend_from_slice(b"abc");
        v.extend_from_slice(*r.pick(bads));
        if r.chance(1, 2) {
            v.extend_from_slice(b"\nzz");
        }
        let hx = hex_bytes(&v);
        emit(format!("C13 val {hx}"));
        emit(format!("C13 valx {hx}"));
        emit(format!("C13 lc {hx} {}", plen + 3));
        emit(format!("C13 lc {hx} {plen}"));
    };
    let line_of = |r: &mut Rng, shape: u64| -> Vec<u8> {
        let n = match shape {
            0 => 0,
            1 => 1,
            2 => 2,
            3 => 6,
            4 => 7,
            5 => 8,
            6 => r.usize_below(3),
            _ => r.usize_below(8),
        };
        let mut l: Vec<u8> = (0..n).map(|_| b'0' + (r.below(10) as u8)).collect();
        l.push(b'\n');
        l
    };
    let ks: &[usize] = if quick { &[1, 2, 4] } else { &[1, 2, 3, 4, 5, 8] };
    let reps_many = if quick { 1 } else { 12 };
    for _ in 0..reps_many {
        for &k in ks {
            for delta in [-1i64, 0, 1] {
                let n = (256 * k as i64 + delta) as usize;
                for shape in 0..8u64 {
                    if quick && shape == 5 && k > 1 {
                        continue;
                    }
                    let lead = if shape % 2 == 0 { 0 } else { r.usize_below(8) };
                    let mut p: Vec<u8> = vec![b'x'; lead];
                    for _ in 0..n {
                        p.extend(line_of(r, shape));
                    }
                    many(r, p, emit);
                }
            }
        }
    }
    // batches: >= 256 newlines that start right before / after a 2040-byte (255-word) batch edge
    for edge in [2040usize, 4080, 65536] {
        for d in [-9i64, -1, 0, 1, 8] {
            if quick && edge == 65536 && d != 0 {
                continue;
            }
            let start = (edge as i64 + d) as usize;
            let mut p: Vec<u8> = (0..start).map(|i| if i % 97 == 96 { b'\n' } else { b'a' }).collect();
            let shape = r.below(5);
            for _ in 0..(256 + r.usize_below(3)) {
                p.extend(line_of(r, shape));
            }
            many(r, p, emit);
        }
    }
    // long prefixes: many 7-byte lines across 64 KiB, sparse newlines, no newline at all
    let longs: &[usize] = if quick { &[66_000] } else { &[300, 2_039, 2_041, 20_000, 65_535, 65_537, 70_000] };
    for &len in longs {
        let mut p = Vec::with_capacity(len);
        while p.len() + 7 <= len {
            p.extend_from_slice(b"123456\n");
        }
        many(r, p, emit);
        many(r, vec![b'a'; len], emit);
        let p: Vec<u8> = (0..len).map(|i| if i % 1021 == 0 { b'\n' } else { b'b' }).collect();
        many(r, p, emit);
    }
    if !quick {
        for _ in 0..300 {
            // random short-line documents around the wrap points
            let n = *r.pick(&[255usize, 256, 257, 511, 512, 513, 767, 768, 1023, 1024, 1025, 2048]) + r.usize_below(2);
            let mean = r.range(1, 9);
            let mut p: Vec<u8> = vec![b'y'; r.usize_below(16)];
            for _ in 0..n {
                let l = r.usize_below(mean as usize + 1);
                p.extend((0..l).map(|_| b'a' + (r.below(26) as u8)));
                p.push(b'\n');
            }
            many(r, p, emit);
        }
    }
    // ---- skip_ascii: one high byte at each position, every start
    for len in [0usize, 1, 7, 8, 9, 15, 16, 17, 23, 24, 31, 33] {
        for hi in 0..=len {
            let mut v: Vec<u8> = (0..len).map(|_| r.byte() & 0x7F).collect();
            if hi < len {
                v[hi] = *r.pick(&[0x80u8, 0xFF, 0xC2]);
                if r.chance(1, 2) && hi + 3 < len {
                    v[hi + 3] = 0x80;
                }
            }
            for pos in 0..=len + 1 {
                if quick && len > 17 && pos % 3 != 0 {
                    continue;
                }
                emit(format!("C13 skip {} {pos}", hex_bytes(&v)));
            }
        }
    }
    // ---- codec: all code points (thorough) / all < 0x800 + boundaries + sample (quick)
    let mut cps: Vec<u32> = Vec::new();
    if quick {
        cps.extend(0..0x800u32);
        for c in [0x800u32, 0xFFF, 0x1000, 0xCFFF, 0xD000, 0xD7FF, 0xD800, 0xDBFF, 0xDC00, 0xDFFF, 0xE000, 0xFFFD, 0xFFFF,
                  0x10000, 0x3FFFF, 0x40000, 0xFFFFF, 0x100000, 0x10FFFF, 0x110000, 0x1FFFFF, 0x200000, u32::MAX] {
            cps.push(c);
        }
        for _ in 0..6000 {
            cps.push(r.below(0x11_0400) as u32);
        }
    } else {
        cps.extend(0..0x11_0100u32);
        cps.extend([0x1FFFFFu32, 0x200000, 0x7FFF_FFFF, 0x8000_0000, u32::MAX]);
    }
    for cp in cps {
        emit(format!("C13 enc {cp}"));
        if let Some(ch) = char::from_u32(cp) {
            let mut buf = [0u8; 4];
            let s = ch.encode_utf8(&mut buf).as_bytes().to_vec();
            let mut v = s.clone();
            // trailing bytes after the sequence must be ignored by decode_code_point
            if cp % 3 == 0 {
                v.push(r.byte());
            }
            emit(format!("C13 dec {}", hex_bytes(&v)));
            if s.len() > 1 && cp % 5 == 0 {
                emit(format!("C13 dec {}", hex_bytes(&s[..s.len() - 1])));
            }
        }
    }
}
