//! C12 — LineIndex line/column mapping under arbitrary query histories, also reached through
//! JsonIndex / YamlIndex `to_line_column` / `to_offset`.
//!
//! `run <via> <text> <queries>`: build ONE index over `text` (via 0 = `text::LineIndex`,
//! 1 = `json::JsonIndex`, 2 = `yaml::YamlIndex`), issue every query in order on that same index
//! (so the one-entry cache carries over) and print all answers.
//!   o<offset>      to_line_column          -> line:col
//!   p<line>:<col>  to_offset               -> n | -
//!   s<line>        line_start              -> n | -
//!   n / t          line_count / text_len   -> n
//!   r<offset>      to_line_column, then to_offset of the result  -> line:col>n|-
use crate::rng::Rng;
use crate::util::*;
use crate::Tier;
use succinctly::json::JsonIndex;
use succinctly::text::LineIndex;
use succinctly::yaml::YamlIndex;

pub fn tables() -> Vec<(&'static str, String)> {
    vec![]
}

enum Ix<'a> {
    L(LineIndex),
    J(JsonIndex, &'a [u8], LineIndex),
    Y(YamlIndex, &'a [u8], LineIndex),
}

impl Ix<'_> {
    fn to_line_column(&self, o: usize) -> (usize, usize) {
        match self {
            Ix::L(l) => l.to_line_column(o),
            Ix::J(j, t, _) => j.to_line_column(o, t),
            Ix::Y(y, t, _) => y.to_line_column(o, t),
        }
    }
    fn to_offset(&self, l: usize, c: usize) -> Option<usize> {
        match self {
            Ix::L(x) => x.to_offset(l, c),
            Ix::J(j, t, _) => j.to_offset(l, c, t),
            Ix::Y(y, t, _) => y.to_offset(l, c, t),
        }
    }
    /// `line_start` / `line_count` / `text_len` exist on `LineIndex` only.
    fn lines(&self) -> &LineIndex {
        match self {
            Ix::L(l) => l,
            Ix::J(_, _, l) | Ix::Y(_, _, l) => l,
        }
    }
}

pub fn exec(a: &[&str]) -> String {
    match a[0] {
        "run" => {
            let text = parse_bytes(a[2]);
            let ix = match a[1] {
                "0" => Ix::L(LineIndex::build(&text)),
                "1" => Ix::J(JsonIndex::build(&text), &text, LineIndex::build(&text)),
                "2" => match YamlIndex::build(&text) {
                    Ok(y) => Ix::Y(y, &text, LineIndex::build(&text)),
                    Err(_) => return "YAML-REJECTED".into(),
                },
                _ => return "BAD-VIA".into(),
            };
            if a[3] == "-" {
                return "-".into();
            }
            let mut out: Vec<String> = Vec::new();
            for q in a[3].split(',') {
                let (k, body) = q.split_at(1);
                out.push(match k {
                    "o" => {
                        let (l, c) = ix.to_line_column(num(body));
                        format!("{l}:{c}")
                    }
                    "r" => {
                        let (l, c) = ix.to_line_column(num(body));
                        format!("{l}:{c}>{}", opt(ix.to_offset(l, c)))
                    }
                    "p" => {
                        let Some((l, c)) = body.split_once(':') else { return "BAD-QUERY".into() };
                        opt(ix.to_offset(num(l), num(c)))
                    }
                    "s" => opt(ix.lines().line_start(num(body))),
                    "n" => ix.lines().line_count().to_string(),
                    "t" => ix.lines().text_len().to_string(),
                    _ => return "BAD-QUERY".into(),
                });
            }
            out.join(",")
        }
        _ => "BAD-OP".into(),
    }
}

// ---------------------------------------------------------------------------------------------
// generator

const LF: u8 = b'\n';
const CR: u8 = b'\r';

fn push_break(r: &mut Rng, t: &mut Vec<u8>) {
    match r.below(8) {
        0..=2 => t.push(LF),
        3..=4 => t.push(CR),
        5..=6 => t.extend_from_slice(&[CR, LF]),
        _ => {
            // adjacent breaks: CRCR, LFCR, LFLF, CRLFLF, CRCRLF, LFCRLF
            let pats: [&[u8]; 6] = [&[CR, CR], &[LF, CR], &[LF, LF], &[CR, LF, LF], &[CR, CR, LF], &[LF, CR, LF]];
            t.extend_from_slice(pats[r.usize_below(6)]);
        }
    }
}

fn gen_text(r: &mut Rng, kind: u64, max_len: usize) -> Vec<u8> {
    let mut t = Vec::new();
    match kind {
        0 => {}
        1 => {
            let pats: [&[u8]; 8] = [&[LF], &[CR], &[CR, LF], &[LF, CR], &[CR, CR], &[b'a'], &[b'a', LF], &[LF, b'a']];
            t.extend_from_slice(pats[r.usize_below(8)]);
        }
        2 => {
            // uniform noise over the alphabet with a chosen break density
            let n = r.usize_below(max_len + 1);
            let dens = *r.pick(&[2u64, 4, 16, 64]);
            for _ in 0..n {
                t.push(if r.chance(1, dens) {
                    if r.chance(1, 2) { LF } else { CR }
                } else if r.chance(1, 5) {
                    b' '
                } else {
                    b'a'
                });
            }
        }
        3 => {
            // many short lines (so that forward walks of 1..cap+20 lines exist)
            let lines = r.range(20, 400) as usize;
            let maxw = *r.pick(&[0usize, 1, 3, 9]);
            for _ in 0..lines {
                if t.len() + maxw + 3 > max_len {
                    break;
                }
                for _ in 0..r.usize_below(maxw + 1) {
                    t.push(if r.chance(1, 6) { b' ' } else { b'a' });
                }
                push_break(r, &mut t);
            }
            if r.chance(1, 2) {
                t.push(b'a');
            }
        }
        4 => {
            // one long line, maybe with leading / trailing breaks
            if r.chance(1, 2) {
                push_break(r, &mut t);
            }
            for _ in 0..r.usize_below(max_len.saturating_sub(8) + 1) {
                t.push(b'a');
            }
            if r.chance(1, 2) {
                push_break(r, &mut t);
            }
        }
        _ => {
            // JSON-ish / YAML-ish shape (for the glue entry points): `a: a` lines
            let lines = r.range(1, 120) as usize;
            for _ in 0..lines {
                if t.len() + 12 > max_len {
                    break;
                }
                for _ in 0..r.usize_below(3) {
                    t.push(b' ');
                }
                t.extend_from_slice(b"a");
                for _ in 0..r.usize_below(4) {
                    t.push(b'a');
                }
                match r.below(3) {
                    0 => t.push(LF),
                    1 => t.extend_from_slice(&[CR, LF]),
                    _ => t.push(CR),
                }
            }
        }
    }
    t.truncate(max_len);
    t
}

/// Line starts by the obvious scan (generator targeting only — never compared with anything).
fn naive_starts(t: &[u8]) -> Vec<usize> {
    let mut s = vec![0usize];
    for p in 1..t.len() {
        if t[p - 1] == LF || (t[p - 1] == CR && t[p] != LF) {
            s.push(p);
        }
    }
    s
}

/// Texts well beyond one block, with LF / CR / CRLF breaks (and runs of them) planted at and around
/// multiples of power-of-two block sizes 8..65536 (offsets k·B−2 … k·B+1, so that e.g. a CR is the
/// last byte of a block and its LF the first byte of the next), break-free stretches longer than a
/// block, and optionally the text ending exactly at (or one byte around) a boundary.  Aimed at any
/// chunked / blocked / SIMD-strided scan inside `LineIndex::build`.  Returns the text and the
/// boundary offsets where something was planted.
fn gen_boundary_text(r: &mut Rng, max_len: usize) -> (Vec<u8>, Vec<usize>) {
    // block sizes in play for this text (1..=3 of them)
    let mut sizes: Vec<usize> = Vec::new();
    for _ in 0..r.range(1, 3) {
        let lo = 3u64; // 2^3 = 8
        let hi = (max_len.max(16).ilog2() as u64).min(16);
        sizes.push(1usize << r.range(lo, hi));
    }
    let bmax = *sizes.iter().max().unwrap();
    // length: a few blocks of the largest size in play, ending at / next to a boundary half the time
    let blocks = r.range(1, 6) as usize;
    let mut len = (bmax * blocks).min(max_len);
    len = match r.below(6) {
        0 => len,                                   // ends exactly at a boundary
        1 => len + 1,                               // one byte into the next block
        2 => len.saturating_sub(1),
        3 => len + 2,
        _ => (len + r.usize_below(bmax)).min(max_len + 2),
    };
    // background: break-free filler, or sparse / CRLF-lined text
    let mut t = vec![b'a'; len];
    match r.below(4) {
        0 => {}
        1 => {
            // sparse random breaks (still leaves stretches longer than small blocks)
            let dens = *r.pick(&[50usize, 400, 3000]);
            for b in t.iter_mut() {
                if r.usize_below(dens) == 0 {
                    *b = if r.chance(1, 2) { LF } else { CR };
                }
            }
        }
        2 => {
            // Windows-style lines of a fixed period (the CR walks through every residue class)
            let period = r.range(3, 40) as usize;
            let mut i = r.usize_below(period);
            while i + 1 < len {
                t[i] = CR;
                t[i + 1] = LF;
                i += period;
            }
        }
        _ => {
            for b in t.iter_mut() {
                if r.chance(1, 7) {
                    *b = b' ';
                }
            }
        }
    }
    // plant break patterns around the boundaries
    let pats: [&[u8]; 10] = [
        &[LF],
        &[CR],
        &[CR, LF],
        &[CR, LF],
        &[CR, CR, LF],
        &[LF, CR, LF],
        &[CR, LF, CR, LF],
        &[CR, CR],
        &[LF, LF],
        &[CR, CR, CR, LF],
    ];
    let mut hot = Vec::new();
    for &b in &sizes {
        let nb = len / b + 1;
        let picks = nb.min(48);
        for _ in 0..picks {
            let k = if nb <= 48 { hot.len() % nb } else { r.usize_below(nb) } + usize::from(r.chance(1, 8));
            let at = k * b;
            let d = r.usize_below(4); // pattern starts at k·B − 2 … k·B + 1
            let p = pats[r.usize_below(pats.len())];
            let start = (at + d).saturating_sub(2);
            for (j, &c) in p.iter().enumerate() {
                if start + j < len {
                    t[start + j] = c;
                }
            }
            // keep the byte after a planted CR from being an accidental LF only by chance: leave as is
            hot.push(at);
        }
    }
    // the very end: sometimes a break as the last byte(s)
    if len > 0 && r.chance(1, 3) {
        let p = pats[r.usize_below(4)];
        let start = len - p.len().min(len);
        t[start..].copy_from_slice(&p[..len - start]);
    }
    hot.push(len);
    (t, hot)
}

fn gen_queries(r: &mut Rng, t: &[u8], n: usize, lineindex_only: bool, hot: &[usize]) -> Vec<String> {
    let cap = succinctly::verif_hooks::VERIF_FORWARD_WALK_CAP as usize;
    let starts = naive_starts(t);
    let nl = starts.len();
    let len = t.len();
    let mut qs = Vec::with_capacity(n);
    let mut cur_line = 0usize; // generator's idea of where the cache sits
    let mut last_off = 0usize;
    let within = |r: &mut Rng, li: usize| -> usize {
        let lo = starts[li];
        let hi = if li + 1 < nl { starts[li + 1] } else { len.max(lo + 1) };
        lo + r.usize_below((hi - lo).max(1))
    };
    for _ in 0..n {
        // block-boundary texts: half of the queries sit within 3 bytes of a boundary where a break
        // was planted (to_line_column / round trip at the offset, or to_offset on the line there)
        if !hot.is_empty() && r.chance(1, 2) {
            let h = *r.pick(hot);
            let o = (h + r.usize_below(6)).saturating_sub(3);
            if r.chance(1, 6) {
                let q = o.min(u32::MAX as usize);
                let li = starts.partition_point(|&s| s <= q) - 1;
                let line = (li + r.usize_below(3)).saturating_sub(1).min(nl);
                let col = match r.below(3) {
                    0 => 1,
                    1 => o.saturating_sub(starts[line.min(nl - 1)]) + 1,
                    _ => 1 + r.usize_below(6),
                };
                qs.push(format!("p{}:{col}", line + 1));
                continue;
            }
            let q = o.min(u32::MAX as usize);
            cur_line = starts.partition_point(|&s| s <= q) - 1;
            last_off = o;
            qs.push(if r.chance(1, 3) { format!("r{o}") } else { format!("o{o}") });
            continue;
        }
        let mode = r.below(100);
        let off: Option<usize>;
        match mode {
            0..=19 => {
                // short forward step (same or next few bytes)
                off = Some(last_off + r.usize_below(4));
            }
            20..=44 => {
                // forward walk of k lines, k around the cap
                let ks = [1usize, 2, 3, cap / 2, cap.saturating_sub(2), cap.saturating_sub(1), cap, cap + 1, cap + 2, cap + 5, 2 * cap + 1];
                let k = *r.pick(&ks);
                let li = (cur_line + k).min(nl - 1);
                off = Some(if r.chance(1, 2) { starts[li] } else { within(r, li) });
            }
            45..=59 => {
                // backward jump
                let li = r.usize_below(cur_line + 1);
                off = Some(if r.chance(1, 2) { starts[li] } else { within(r, li) });
            }
            60..=69 => off = Some(last_off), // exact repeat
            70..=77 => {
                // uniformly random line / position, first byte before a start (end of previous line)
                let li = r.usize_below(nl);
                off = Some(if r.chance(1, 3) { starts[li].saturating_sub(1) } else { within(r, li) });
            }
            78..=85 => {
                let specials = [
                    len,
                    len.saturating_sub(1),
                    len + 1,
                    len + 5,
                    u32::MAX as usize - 1,
                    u32::MAX as usize,
                    u32::MAX as usize + 1,
                    u32::MAX as usize + 2,
                    usize::MAX - 1,
                    usize::MAX / 2,
                    0,
                ];
                off = Some(*r.pick(&specials));
            }
            86..=93 => {
                // to_offset: valid, column 0, line 0, past last line, column past the line / text
                let li = r.usize_below(nl + 2);
                let line = if r.chance(1, 12) { 0 } else { li + 1 };
                let col = match r.below(8) {
                    0 => 0,
                    1 => 1,
                    2 => len + 1,
                    3 => len + 2 - starts[li.min(nl - 1)].min(len + 1),
                    4 => len - starts[li.min(nl - 1)].min(len),
                    5 => *r.pick(&[u32::MAX as usize, u32::MAX as usize + 1, usize::MAX >> 1, 1usize << 40]),
                    _ => 1 + r.usize_below(12),
                };
                qs.push(format!("p{line}:{col}"));
                continue;
            }
            94..=96 if lineindex_only => {
                let li = r.usize_below(nl + 2);
                qs.push(format!("s{li}"));
                continue;
            }
            97..=99 if lineindex_only => {
                qs.push(if r.chance(1, 2) { "n".into() } else { "t".into() });
                continue;
            }
            _ => off = Some(r.usize_below(len + 2)),
        }
        let o = off.unwrap();
        // track where the implementation's cache will sit after this query
        let q = o.min(u32::MAX as usize);
        cur_line = starts.partition_point(|&s| s <= q) - 1;
        last_off = o;
        qs.push(if r.chance(1, 5) { format!("r{o}") } else { format!("o{o}") });
    }
    qs
}

pub fn gen(tier: Tier, r: &mut Rng, emit: &mut dyn FnMut(String)) {
    let (n_texts, max_q, max_len) = if tier == Tier::Quick { (700, 300, 4096) } else { (12_000, 1500, 4096) };
    // every text of length <= 4 over {a, LF, CR}: every offset in order, then in reverse, on one index
    let alpha = [b'a', LF, CR];
    for len in 0..=4usize {
        for code in 0..3usize.pow(len as u32) {
            let mut c = code;
            let t: Vec<u8> = (0..len).map(|_| { let b = alpha[c % 3]; c /= 3; b }).collect();
            let mut qs: Vec<String> = vec!["n".into(), "t".into()];
            for o in 0..=len + 2 {
                qs.push(format!("r{o}"));
            }
            for o in (0..=len + 2).rev() {
                qs.push(format!("o{o}"));
            }
            for l in 0..=len + 1 {
                qs.push(format!("s{l}"));
                for c in 0..=len + 1 {
                    qs.push(format!("p{l}:{c}"));
                }
            }
            emit(format!("C12 run 0 {} {}", hex_bytes(&t), qs.join(",")));
        }
    }
    // regression stream for former finding F10 (to_offset wrapped; fixed by checked_add):
    // requests made ONLY of to_offset queries whose column exceeds 2^64 - 2^32
    for _ in 0..(n_texts / 20) {
        let t = gen_text(r, 3, 200);
        let starts = naive_starts(&t);
        let mut qs = Vec::new();
        for _ in 0..r.range(1, 6) {
            let li = r.usize_below(starts.len());
            let s = starts[li];
            // line_start + col - 1 == 2^64 + o  (wraps to o) when s >= o + 2; otherwise just huge
            let col = if s >= 2 && r.chance(3, 4) {
                let o = r.usize_below(s - 1);
                usize::MAX - s + 2 + o
            } else {
                usize::MAX - r.usize_below(1000)
            };
            qs.push(format!("p{}:{col}", li + 1));
        }
        emit(format!("C12 run 0 {} {}", hex_bytes(&t), list(&qs)));
    }
    // block-boundary stream: texts up to ~70 KiB (quick) / 260 KiB (thorough)
    let (n_big, big_len, big_q) = if tier == Tier::Quick { (90, 70 * 1024, 120) } else { (1200, 260 * 1024, 300) };
    for i in 0..n_big {
        let ml = match i % 3 {
            0 => 9 * 1024,
            1 => 20 * 1024,
            _ => big_len,
        };
        let (t, hot) = gen_boundary_text(r, ml);
        let via = if i % 9 == 4 { 1 } else { 0 };
        let nq = r.range(20, big_q) as usize;
        let qs = gen_queries(r, &t, nq, via == 0, &hot);
        emit(format!("C12 run {via} {} {}", hex_bytes(&t), list(&qs)));
    }
    for i in 0..n_texts {
        let kind = match i % 10 {
            0 => r.below(2),
            1 | 2 | 3 => 2,
            4 | 5 | 6 => 3,
            7 => 4,
            _ => 5,
        };
        // mostly small; one in 25 of the general texts is far beyond one 4 KiB block
        let ml = if i % 25 == 7 { 40 * 1024 } else if r.chance(1, 3) { max_len } else { *r.pick(&[16usize, 64, 300, 1000]) };
        let t = gen_text(r, kind, ml);
        let nq = if ml > max_len { 60 } else if r.chance(1, 4) { max_q } else { r.usize_below(max_q / 3 + 1) };
        // entry point: mostly LineIndex; JsonIndex accepts any bytes; YamlIndex only where it parses
        let via = match r.below(6) {
            0 => 1,
            1 if YamlIndex::build(&t).is_ok() => 2,
            _ => 0,
        };
        let qs = gen_queries(r, &t, nq, via == 0, &[]);
        emit(format!("C12 run {via} {} {}", hex_bytes(&t), list(&qs)));
    }
}
