//! C28 — jq-locate: the located expression evaluates to the located node.
//!
//! `C28 doc <bytes>`  → for EVERY byte offset of the document one answer, separated by spaces:
//!     `<off>:<expr hex>|<lo>,<hi>|<type>|<A><P>`   (or `<off>:-` when locate returns None)
//!   A = `at_offset(off)`, P = `at_position(line; col)` evaluated by the crate's own jq against the
//!   token's own value as found by the independent in-harness parser (the key string for a key):
//!   `K` ok, `F` fail, `-` offset not qualifying (whitespace / `,` / `:` / closing bracket / inside a
//!   container but outside its tokens). A document that is not valid RFC 8259 answers `INVALID-DOC`,
//!   one with duplicate keys `DUP-KEYS`.
//! `C28 ev <bytes> <off>` → `<expr hex> <verdict>`: the printed expression evaluated by the crate's
//!   own jq on the document, compared with the value of the node at that offset (for a key: the value
//!   it names): `K` ok, `P` the expression does not parse, `X` the evaluator panics, `N` no single
//!   result, `V` wrong value, `-` offset not qualifying.
//! `C28 cli <bytes>`  → `cli=OK` when `succinctly jq-locate --format json` (binary `$SV_CLI`) agrees
//!   with the library on expression/range/type for sampled offsets and `succinctly jq` evaluates the
//!   printed expression to the oracle's value; `cli=FAIL …` otherwise; `cli=SKIP` without `$SV_CLI`.
//! `C28 dot <key bytes>` → `can_use_dot_notation`-observable: the path component printed for that key.
use crate::rng::Rng;
use crate::util::*;
use crate::Tier;
use succinctly::json::light::JsonIndex;
use succinctly::json::locate::locate_offset_detailed;

pub fn tables() -> Vec<(&'static str, String)> {
    vec![]
}

// ---------------------------------------------------------------------------------------------
// independent mini reader (oracle): node table with spans

#[derive(Debug, Clone, PartialEq)]
enum Val {
    Null,
    Bool(bool),
    Num(f64),
    Str(String),
    Arr(Vec<Node>),
    Obj(Vec<(Node, Node)>),
}

#[derive(Debug, Clone, PartialEq)]
struct Node {
    start: usize,
    end: usize,
    val: Val,
}

struct Rd<'a> {
    t: &'a [u8],
    i: usize,
}

impl<'a> Rd<'a> {
    fn ws(&mut self) {
        while self.i < self.t.len() && matches!(self.t[self.i], b' ' | b'\t' | b'\n' | b'\r') {
            self.i += 1;
        }
    }
    fn hex4(&mut self) -> Option<u32> {
        let s = std::str::from_utf8(self.t.get(self.i..self.i + 4)?).ok()?;
        self.i += 4;
        u32::from_str_radix(s, 16).ok()
    }
    fn string(&mut self) -> Option<Node> {
        let start = self.i;
        self.i += 1;
        let mut out: Vec<u8> = Vec::new();
        loop {
            let b = *self.t.get(self.i)?;
            match b {
                b'"' => {
                    self.i += 1;
                    break;
                }
                b'\\' => {
                    let e = *self.t.get(self.i + 1)?;
                    self.i += 2;
                    let c = match e {
                        b'"' => '"',
                        b'\\' => '\\',
                        b'/' => '/',
                        b'b' => '\u{8}',
                        b'f' => '\u{c}',
                        b'n' => '\n',
                        b'r' => '\r',
                        b't' => '\t',
                        b'u' => {
                            let hi = self.hex4()?;
                            let cp = if (0xD800..0xDC00).contains(&hi) {
                                if self.t.get(self.i) != Some(&b'\\') || self.t.get(self.i + 1) != Some(&b'u') {
                                    return None;
                                }
                                self.i += 2;
                                let lo = self.hex4()?;
                                0x10000 + ((hi - 0xD800) << 10) + (lo.checked_sub(0xDC00)?)
                            } else {
                                hi
                            };
                            char::from_u32(cp)?
                        }
                        _ => return None,
                    };
                    let mut buf = [0u8; 4];
                    out.extend_from_slice(c.encode_utf8(&mut buf).as_bytes());
                }
                _ => {
                    out.push(b);
                    self.i += 1;
                }
            }
        }
        Some(Node { start, end: self.i, val: Val::Str(String::from_utf8(out).ok()?) })
    }
    fn value(&mut self, depth: usize) -> Option<Node> {
        if depth > 600 {
            return None;
        }
        let start = self.i;
        match *self.t.get(self.i)? {
            b'"' => self.string(),
            b'[' => {
                self.i += 1;
                let mut xs = Vec::new();
                self.ws();
                if self.t.get(self.i) == Some(&b']') {
                    self.i += 1;
                    return Some(Node { start, end: self.i, val: Val::Arr(xs) });
                }
                loop {
                    self.ws();
                    xs.push(self.value(depth + 1)?);
                    self.ws();
                    match *self.t.get(self.i)? {
                        b',' => self.i += 1,
                        b']' => {
                            self.i += 1;
                            return Some(Node { start, end: self.i, val: Val::Arr(xs) });
                        }
                        _ => return None,
                    }
                }
            }
            b'{' => {
                self.i += 1;
                let mut fs = Vec::new();
                self.ws();
                if self.t.get(self.i) == Some(&b'}') {
                    self.i += 1;
                    return Some(Node { start, end: self.i, val: Val::Obj(fs) });
                }
                loop {
                    self.ws();
                    if self.t.get(self.i) != Some(&b'"') {
                        return None;
                    }
                    let k = self.string()?;
                    self.ws();
                    if self.t.get(self.i) != Some(&b':') {
                        return None;
                    }
                    self.i += 1;
                    self.ws();
                    let v = self.value(depth + 1)?;
                    fs.push((k, v));
                    self.ws();
                    match *self.t.get(self.i)? {
                        b',' => self.i += 1,
                        b'}' => {
                            self.i += 1;
                            return Some(Node { start, end: self.i, val: Val::Obj(fs) });
                        }
                        _ => return None,
                    }
                }
            }
            _ => {
                while self.i < self.t.len() && !matches!(self.t[self.i], b' ' | b'\t' | b'\n' | b'\r' | b',' | b']' | b'}') {
                    self.i += 1;
                }
                let s = std::str::from_utf8(&self.t[start..self.i]).ok()?;
                let val = match s {
                    "null" => Val::Null,
                    "true" => Val::Bool(true),
                    "false" => Val::Bool(false),
                    _ => Val::Num(s.parse::<f64>().ok()?),
                };
                Some(Node { start, end: self.i, val })
            }
        }
    }
}

fn read_doc(t: &[u8]) -> Option<Node> {
    let mut r = Rd { t, i: 0 };
    r.ws();
    let n = r.value(0)?;
    r.ws();
    if r.i == t.len() {
        Some(n)
    } else {
        None
    }
}

/// value equality up to object member order and number spelling
fn same(a: &Val, b: &Val) -> bool {
    match (a, b) {
        (Val::Null, Val::Null) => true,
        (Val::Bool(x), Val::Bool(y)) => x == y,
        (Val::Num(x), Val::Num(y)) => x == y,
        (Val::Str(x), Val::Str(y)) => x == y,
        (Val::Arr(x), Val::Arr(y)) => x.len() == y.len() && x.iter().zip(y).all(|(p, q)| same(&p.val, &q.val)),
        (Val::Obj(x), Val::Obj(y)) => {
            x.len() == y.len()
                && x.iter().all(|(k, v)| y.iter().any(|(k2, v2)| k.val == k2.val && same(&v.val, &v2.val)))
        }
        _ => false,
    }
}

fn has_dup_keys(n: &Node) -> bool {
    match &n.val {
        Val::Arr(xs) => xs.iter().any(has_dup_keys),
        Val::Obj(fs) => {
            for (i, (k, v)) in fs.iter().enumerate() {
                if fs[..i].iter().any(|(k2, _)| k2.val == k.val) || has_dup_keys(v) {
                    return true;
                }
            }
            false
        }
        _ => false,
    }
}

/// The qualifying target at `off`: (node whose value the expression must yield, token's own node).
fn target<'a>(n: &'a Node, off: usize) -> Option<(&'a Node, &'a Node)> {
    if off < n.start || off >= n.end {
        return None;
    }
    match &n.val {
        Val::Arr(xs) => {
            if off == n.start {
                return Some((n, n));
            }
            xs.iter().find_map(|x| target(x, off))
        }
        Val::Obj(fs) => {
            if off == n.start {
                return Some((n, n));
            }
            fs.iter().find_map(|(k, v)| {
                if off >= k.start && off < k.end {
                    Some((v, k))
                } else {
                    target(v, off)
                }
            })
        }
        _ => Some((n, n)),
    }
}

fn line_col(t: &[u8], off: usize) -> (usize, usize) {
    // LF, lone CR, CRLF are one break each; a line begins at the byte after the break
    let (mut line, mut start) = (1usize, 0usize);
    let mut i = 0;
    while i < off && i < t.len() {
        let brk = t[i] == b'\n' || (t[i] == b'\r' && t.get(i + 1) != Some(&b'\n'));
        if brk && i + 1 <= off {
            line += 1;
            start = i + 1;
        }
        i += 1;
    }
    (line, off - start + 1)
}

fn jq_eval(index: &JsonIndex, text: &[u8], prog: &str) -> Result<Val, String> {
    let expr = succinctly::jq::parse(prog).map_err(|e| format!("parse:{e}"))?;
    let res = succinctly::jq::eval_generic::eval_with_cursor(&expr, index.root(text));
    let owned = res.into_owned().ok_or_else(|| "noresult".to_string())?;
    let js = owned.to_json();
    read_doc(js.as_bytes()).map(|n| n.val).ok_or_else(|| format!("unreadable:{js}"))
}

fn verdict(r: Result<Val, String>, want: &Val) -> char {
    match r {
        Ok(v) if same(&v, want) => 'K',
        _ => 'F',
    }
}

/// detailed verdict for the located expression
fn ev_verdict(index: &JsonIndex, text: &[u8], prog: &str, want: &Val) -> char {
    let r = std::panic::catch_unwind(std::panic::AssertUnwindSafe(|| jq_eval(index, text, prog)));
    match r {
        Err(_) => 'X',
        Ok(Ok(v)) => {
            if same(&v, want) {
                'K'
            } else {
                'V'
            }
        }
        Ok(Err(e)) if e.starts_with("parse:") => 'P',
        Ok(Err(_)) => 'N',
    }
}

fn answer_ev(text: &[u8], off: usize) -> String {
    if succinctly::json::validate::validate(text).is_err() {
        return "INVALID-DOC".into();
    }
    let Some(root) = read_doc(text) else { return "ORACLE-CANNOT-READ".into() };
    if has_dup_keys(&root) {
        return "DUP-KEYS".into();
    }
    let index = JsonIndex::build(text);
    match locate_offset_detailed(&index, text, off) {
        None => "-".into(),
        Some(r) => {
            let v = match target(&root, off) {
                None => '-',
                Some((want, _)) => ev_verdict(&index, text, &r.expression, &want.val),
            };
            format!("{} {v}", hex_bytes(r.expression.as_bytes()))
        }
    }
}

fn answer_doc(text: &[u8]) -> String {
    if succinctly::json::validate::validate(text).is_err() {
        return "INVALID-DOC".into();
    }
    let Some(root) = read_doc(text) else { return "ORACLE-CANNOT-READ".into() };
    if has_dup_keys(&root) {
        return "DUP-KEYS".into();
    }
    let index = JsonIndex::build(text);
    let mut out = Vec::with_capacity(text.len());
    for off in 0..text.len() {
        match locate_offset_detailed(&index, text, off) {
            None => out.push(format!("{off}:-")),
            Some(r) => {
                let (a, p) = match target(&root, off) {
                    None => ('-', '-'),
                    Some((_, own)) => {
                        let a = verdict(jq_eval(&index, text, &format!("at_offset({off})")), &own.val);
                        let (l, c) = line_col(text, off);
                        let p = verdict(jq_eval(&index, text, &format!("at_position({l}; {c})")), &own.val);
                        (a, p)
                    }
                };
                out.push(format!(
                    "{off}:{}|{},{}|{}|{a}{p}",
                    hex_bytes(r.expression.as_bytes()),
                    r.byte_range.0,
                    r.byte_range.1,
                    r.value_type
                ));
            }
        }
    }
    if out.is_empty() {
        "-".into()
    } else {
        out.join(" ")
    }
}

fn answer_cli(text: &[u8]) -> String {
    let Ok(cli) = std::env::var("SV_CLI") else { return "cli=SKIP".into() };
    if succinctly::json::validate::validate(text).is_err() {
        return "INVALID-DOC".into();
    }
    let Some(root) = read_doc(text) else { return "ORACLE-CANNOT-READ".into() };
    if has_dup_keys(&root) {
        return "DUP-KEYS".into();
    }
    let dir = std::env::temp_dir().join(format!("svc28-{}", std::process::id()));
    let _ = std::fs::create_dir_all(&dir);
    let file = dir.join("doc.json");
    if std::fs::write(&file, text).is_err() {
        return "cli=FAIL write".into();
    }
    let index = JsonIndex::build(text);
    let run = |args: &[&str]| -> Result<String, String> {
        let o = std::process::Command::new(&cli)
            .args(args)
            .env("NO_COLOR", "1")
            .output()
            .map_err(|e| format!("spawn:{e}"))?;
        if !o.status.success() {
            return Err(format!("exit:{:?}", o.status.code()));
        }
        String::from_utf8(o.stdout).map_err(|_| "non-utf8".to_string())
    };
    // sample: every 7th qualifying offset, at most 6
    let offs: Vec<usize> = (0..text.len()).filter(|o| target(&root, *o).is_some()).step_by(7).take(3).collect();
    let f = file.to_string_lossy().to_string();
    for off in offs {
        let (want, _) = target(&root, off).unwrap();
        let lib = match locate_offset_detailed(&index, text, off) {
            Some(r) => r,
            None => return format!("cli=FAIL lib-none off={off}"),
        };
        let js = match run(&["jq-locate", &f, "--offset", &off.to_string(), "--format", "json"]) {
            Ok(s) => s,
            Err(e) => return format!("cli=FAIL jq-locate off={off} {e}"),
        };
        let Some(j) = read_doc(js.as_bytes()) else { return format!("cli=FAIL unreadable off={off}") };
        let Val::Obj(fs) = &j.val else { return format!("cli=FAIL shape off={off}") };
        let get = |k: &str| fs.iter().find(|(kk, _)| kk.val == Val::Str(k.into())).map(|(_, v)| v.val.clone());
        let expr = match get("expression") {
            Some(Val::Str(s)) => s,
            _ => return format!("cli=FAIL noexpr off={off}"),
        };
        let range_ok = matches!(get("byte_range"), Some(Val::Arr(xs)) if xs.len() == 2
            && xs[0].val == Val::Num(lib.byte_range.0 as f64) && xs[1].val == Val::Num(lib.byte_range.1 as f64));
        let type_ok = get("type") == Some(Val::Str(lib.value_type.into()));
        if expr != lib.expression || !range_ok || !type_ok {
            return format!("cli=FAIL differs-from-library off={off}");
        }
        // plain output format and line/column addressing
        let (l, c) = line_col(text, off);
        match run(&["jq-locate", &f, "--line", &l.to_string(), "--column", &c.to_string()]) {
            Ok(s) if s.trim_end_matches('\n') == expr => {}
            Ok(s) => return format!("cli=FAIL linecol off={off} got={}", hex_bytes(s.as_bytes())),
            Err(e) => return format!("cli=FAIL linecol off={off} {e}"),
        }
        // evaluate the printed expression with the real `succinctly jq`; the verdict must be the
        // in-process one (`ev`), whatever that is
        let inproc = ev_verdict(&index, text, &expr, &want.val);
        if expr.contains('\0') {
            continue; // not passable as a command-line argument
        }
        let cli_v = match run(&["jq", "-c", &expr, &f]) {
            Ok(s) => match read_doc(s.trim().as_bytes()) {
                Some(v) if same(&v.val, &want.val) => 'K',
                Some(_) => 'V',
                None => 'N',
            },
            Err(e) if e == "exit:Some(101)" => 'X',
            Err(_) => 'P',
        };
        let norm = |c: char| if c == 'N' { 'P' } else { c };
        if norm(cli_v) != norm(inproc) {
            return format!("cli=FAIL eval off={off} cli={cli_v} inproc={inproc}");
        }
    }
    "cli=OK".into()
}

pub fn exec(a: &[&str]) -> String {
    match a[0] {
        "doc" => answer_doc(&parse_bytes(a[1])),
        "cli" => answer_cli(&parse_bytes(a[1])),
        "ev" => answer_ev(&parse_bytes(a[1]), num(a[2])),
        // dot <key utf8 bytes>: the expression for the value of that key in {"<key>":0}
        "dot" => {
            let key = parse_bytes(a[1]);
            let Ok(k) = String::from_utf8(key) else { return "NOT-UTF8".into() };
            let mut doc = String::from("{\"");
            for c in k.chars() {
                match c {
                    '"' => doc.push_str("\\\""),
                    '\\' => doc.push_str("\\\\"),
                    c if (c as u32) < 0x20 => doc.push_str(&format!("\\u{:04x}", c as u32)),
                    c => doc.push(c),
                }
            }
            doc.push_str("\":0}");
            let t = doc.as_bytes();
            let index = JsonIndex::build(t);
            match locate_offset_detailed(&index, t, t.len() - 2) {
                Some(r) => hex_bytes(r.expression.as_bytes()),
                None => "-".into(),
            }
        }
        _ => "BAD-OP".into(),
    }
}

// ---------------------------------------------------------------------------------------------
// generator

const WS: [&[u8]; 6] = [b" ", b"\t", b"\n", b"\r", b"\r\n", b"  "];

fn gap(r: &mut Rng, out: &mut Vec<u8>) {
    match r.below(8) {
        0..=4 => {}
        5 | 6 => out.extend_from_slice(*r.pick(&WS[..])),
        _ => {
            for _ in 0..r.range(1, 3) {
                out.extend_from_slice(*r.pick(&WS[..]));
            }
        }
    }
}

/// JSON string token for `s` (escaping what must be escaped, sometimes more).
fn push_json_string(r: &mut Rng, s: &str, out: &mut Vec<u8>) {
    out.push(b'"');
    for c in s.chars() {
        let cp = c as u32;
        if c == '"' {
            out.extend_from_slice(b"\\\"");
        } else if c == '\\' {
            out.extend_from_slice(b"\\\\");
        } else if cp < 0x20 {
            match (c, r.below(2)) {
                ('\n', 0) => out.extend_from_slice(b"\\n"),
                ('\t', 0) => out.extend_from_slice(b"\\t"),
                ('\r', 0) => out.extend_from_slice(b"\\r"),
                ('\u{8}', 0) => out.extend_from_slice(b"\\b"),
                ('\u{c}', 0) => out.extend_from_slice(b"\\f"),
                _ => out.extend_from_slice(format!("\\u{cp:04x}").as_bytes()),
            }
        } else if r.chance(1, 12) {
            // \u escape (surrogate pair above the BMP)
            let mut u = [0u16; 2];
            for w in c.encode_utf16(&mut u) {
                out.extend_from_slice(format!("\\u{w:04X}").as_bytes());
            }
        } else if c == '/' && r.chance(1, 3) {
            out.extend_from_slice(b"\\/");
        } else {
            let mut buf = [0u8; 4];
            out.extend_from_slice(c.encode_utf8(&mut buf).as_bytes());
        }
    }
    out.push(b'"');
}

const KEYS: &[&str] = &[
    "a", "foo", "_x", "foo_bar1", "A9", "x", "k", "name", "id", // dot notation
    "", " ", "foo-bar", "foo.bar", "foo bar", "1", "123", "1a", "9_", "-", ".", "[0]", "a[0]", "$x", "@a", "a:b", "a,b", // brackets
    "if", "then", "and", "or", "not", "null", "true", "false", "def", "reduce", "as", "__loc__", "try", "end", // reserved words
    "q\"uote", "back\\slash", "\\", "\"", "\\\"", "a\\nb", "\\(x)", "\\u0041", "tab\there", "nl\nline", "cr\rret", "\u{8}", "\u{c}", "\u{1}", "\u{1f}",
    "\u{7f}", "a\u{0}b", // quotes, backslashes, control characters
    "é", "ñandú", "日本", "ключ", "ß", "İ", "ǅ", "_é", "aé1", "é-", "٣", "x٣", "²", "a²", "Ⅷ", "aⅧ", "ａ", "a\u{301}", "\u{301}", "a\u{200d}", // non-ASCII letters / numerics / marks
    "😀", "a😀", "𝒳", "𐐷", "\u{10ffff}", "\u{e000}", "\u{feff}", "\u{2028}", // astral / odd
];

fn gen_key(r: &mut Rng, used: &mut Vec<String>) -> String {
    for _ in 0..20 {
        let k = if r.chance(5, 6) {
            (*r.pick(KEYS)).to_string()
        } else {
            let n = r.range(1, 4);
            (0..n)
                .map(|_| match r.below(6) {
                    0 => char::from_u32(r.range(0x20, 0x7e) as u32).unwrap(),
                    1 => char::from_u32(r.range(0xa0, 0x24f) as u32).unwrap(),
                    2 => *r.pick(&['_', 'a', 'Z', '0', '9']),
                    3 => char::from_u32(r.range(1, 0x1f) as u32).unwrap(),
                    4 => char::from_u32(r.range(0x10000, 0x1ffff) as u32).unwrap_or('x'),
                    _ => char::from_u32(r.range(0x370, 0x52f) as u32).unwrap_or('y'),
                })
                .collect()
        };
        if !used.contains(&k) {
            used.push(k.clone());
            return k;
        }
    }
    let k = format!("u{}", used.len());
    used.push(k.clone());
    k
}

fn gen_value(r: &mut Rng, depth: u32, out: &mut Vec<u8>) {
    let k = if depth == 0 { r.below(6) } else { r.below(11) };
    match k {
        0 => out.extend_from_slice(*r.pick(&[&b"null"[..], b"true", b"false"])),
        1 | 2 => out.extend_from_slice(*r.pick(&[&b"0"[..], b"1", b"-7", b"42", b"3.5", b"-0.25", b"1e3", b"12345678", b"2E-2"])),
        3 | 4 => {
            let s = (*r.pick(&["", "v", "hello world", "q\"\\", "é😀", "a\nb", "{[,:]}", "1", "null"])).to_string();
            push_json_string(r, &s, out)
        }
        5 => out.extend_from_slice(*r.pick(&[&b"[]"[..], b"{}", b"[ ]", b"{\n}"])),
        6 | 7 => {
            out.push(b'[');
            gap(r, out);
            let n = r.range(1, 4);
            for i in 0..n {
                if i > 0 {
                    out.push(b',');
                    gap(r, out);
                }
                gen_value(r, depth - 1, out);
                gap(r, out);
            }
            out.push(b']');
        }
        _ => {
            out.push(b'{');
            gap(r, out);
            let n = r.range(1, 4);
            let mut used = Vec::new();
            for i in 0..n {
                if i > 0 {
                    out.push(b',');
                    gap(r, out);
                }
                let key = gen_key(r, &mut used);
                push_json_string(r, &key, out);
                gap(r, out);
                out.push(b':');
                gap(r, out);
                gen_value(r, depth - 1, out);
                gap(r, out);
            }
            out.push(b'}');
        }
    }
}

/// one `ev` request per token / container of the document (first byte, and a byte inside)
fn emit_ev(d: &[u8], emit: &mut dyn FnMut(String)) {
    let Some(root) = read_doc(d) else { return };
    let mut last: Option<(usize, usize)> = None;
    for off in 0..d.len() {
        if let Some((_, own)) = target(&root, off) {
            let id = (own.start, own.end);
            if last != Some(id) {
                last = Some(id);
                emit(format!("C28 ev {} {off}", hex_bytes(d)));
                if own.end - own.start > 2 && !matches!(own.val, Val::Arr(_) | Val::Obj(_)) {
                    emit(format!("C28 ev {} {}", hex_bytes(d), own.end - 1));
                }
            }
        }
    }
}

pub fn gen(tier: Tier, r: &mut Rng, emit: &mut dyn FnMut(String)) {
    let quick = tier == Tier::Quick;
    // every key of the catalogue alone, as member of an object and nested under an array
    for k in KEYS {
        emit(format!("C28 dot {}", hex_bytes(k.as_bytes())));
        let mut d = b"{".to_vec();
        push_json_string(r, k, &mut d);
        d.extend_from_slice(b": [1, {");
        push_json_string(r, k, &mut d);
        d.extend_from_slice(b":\"v\"}]}");
        emit(format!("C28 doc {}", hex_bytes(&d)));
        emit_ev(&d, emit);
    }
    // all scalars < 0x300 and samples above as single-character keys (dot-notation boundary)
    for cp in (1u32..0x300).chain((0x300..0x3000).step_by(if quick { 37 } else { 3 })).chain((0x1_0000..0x2_0000).step_by(if quick { 997 } else { 41 })) {
        if let Some(c) = char::from_u32(cp) {
            let mut b = [0u8; 4];
            emit(format!("C28 dot {}", hex_bytes(c.encode_utf8(&mut b).as_bytes())));
            let s = format!("a{c}");
            emit(format!("C28 dot {}", hex_bytes(s.as_bytes())));
        }
    }
    // scalar roots and whitespace around the root
    for d in [&b"1"[..], b" \"x\" ", b"\r\n[ ]\n", b"\ttrue", b"{}", b"null\n", b"[[[[1]]]]", b"{\"a\":{\"b\":{\"c\":[0,[1,{\"d\":null}]]}}}"] {
        emit(format!("C28 doc {}", hex_bytes(d)));
    }
    let ndocs = if quick { 450 } else { 12_000 };
    for i in 0..ndocs {
        let mut d = Vec::new();
        gap(r, &mut d);
        let depth = if i % 5 == 0 { 4 } else { 3 };
        // root: mostly containers
        if r.chance(1, 12) {
            gen_value(r, 0, &mut d);
        } else {
            let start = d.len();
            loop {
                d.truncate(start);
                gen_value(r, depth, &mut d);
                if d[start] == b'[' || d[start] == b'{' {
                    break;
                }
            }
        }
        gap(r, &mut d);
        if d.len() > 400 {
            continue;
        }
        emit(format!("C28 doc {}", hex_bytes(&d)));
        emit_ev(&d, emit);
        if i % (if quick { 150 } else { 60 }) == 0 {
            emit(format!("C28 cli {}", hex_bytes(&d)));
        }
    }
}
