//! C21 — DSV rows/fields by iteration, random access (`Dsv::row`, `DsvRow::get`), `DsvCursor`
//! operation lists, and rank/select of `DsvIndexLightweight` built from raw words.
use crate::rng::Rng;
use crate::util::*;
use crate::Tier;
use succinctly::dsv::{Dsv, DsvConfig};
use succinctly::verif_hooks as h;

pub fn tables() -> Vec<(&'static str, String)> {
    vec![]
}

fn byte_of(s: &str) -> u8 {
    u8::from_str_radix(s, 16).expect("hex byte")
}

fn row_str(fs: &[&[u8]]) -> String {
    fs.iter().map(|f| hex_bytes(f)).collect::<Vec<_>>().join(",")
}

fn parse(a: &[&str]) -> Dsv {
    let c = DsvConfig { delimiter: byte_of(a[1]), quote_char: byte_of(a[2]), newline: byte_of(a[3]) };
    Dsv::parse_with_config(&parse_bytes(a[4]), &c)
}

fn rows_out(dsv: &Dsv) -> String {
    let rows: Vec<String> = dsv.rows().map(|r| row_str(&r.fields().collect::<Vec<_>>())).collect();
    if rows.is_empty() {
        ".".into()
    } else {
        rows.join(";")
    }
}

fn grid_out(dsv: &Dsv) -> String {
    let r = dsv.rows().count();
    let mut out = Vec::new();
    for i in 0..r + 2 {
        match dsv.row(i) {
            None => out.push("N".to_string()),
            Some(row) => {
                let fs: Vec<&[u8]> = row.fields().collect();
                let cells: Vec<String> = (0..fs.len() + 2)
                    .map(|c| match row.get(c) {
                        None => "N".to_string(),
                        Some(f) => hex_bytes(f),
                    })
                    .collect();
                out.push(format!("F:{}|G:{}", row_str(&fs), cells.join(",")));
            }
        }
    }
    out.join(";")
}

fn b01(b: bool) -> char {
    if b {
        '1'
    } else {
        '0'
    }
}

pub fn exec(a: &[&str]) -> String {
    match a[0] {
        "rows" | "rowsc" | "rowss" => rows_out(&parse(a)),
        "get" | "getc" => grid_out(&parse(a)),
        "cur" => {
            let dsv = parse(a);
            let mut cur = dsv.cursor();
            let mut out = Vec::new();
            if a[5] != "-" {
                for op in a[5].split(',') {
                    out.push(match op.as_bytes()[0] {
                        b'f' => {
                            let ok = cur.next_field();
                            format!("f{}@{}", b01(ok), cur.position())
                        }
                        b'r' => {
                            let ok = cur.next_row();
                            format!("r{}@{}", b01(ok), cur.position())
                        }
                        b'c' => hex_bytes(cur.current_field()),
                        b'e' => b01(cur.at_end()).to_string(),
                        b'g' => {
                            let ok = cur.goto_row(op[1..].parse().unwrap());
                            format!("g{}@{}", b01(ok), cur.position())
                        }
                        _ => "?".to_string(),
                    });
                }
            }
            out.join(",")
        }
        // rs <words> <textlen> <is> <ks>
        "rs" => {
            let ws = parse_words(a[1]);
            let ix = h::dsv_index_from_words(ws.clone(), ws, num(a[2]));
            let is: Vec<usize> = if a[3] == "-" { vec![] } else { a[3].split(',').map(num).collect() };
            let ks: Vec<usize> = if a[4] == "-" { vec![] } else { a[4].split(',').map(num).collect() };
            let ol = |xs: Vec<Option<usize>>| {
                if xs.is_empty() {
                    "-".to_string()
                } else {
                    xs.into_iter().map(opt).collect::<Vec<_>>().join(",")
                }
            };
            let m = format!(
                "{};{}",
                ol(is.iter().map(|&i| Some(ix.markers_rank1(i))).collect()),
                ol(ks.iter().map(|&k| ix.markers_select1(k)).collect())
            );
            let n = format!(
                "{};{}",
                ol(is.iter().map(|&i| Some(ix.newlines_rank1(i))).collect()),
                ol(ks.iter().map(|&k| ix.newlines_select1(k)).collect())
            );
            format!("{m}|{n}")
        }
        _ => "BAD-OP".into(),
    }
}

/// Delimiter/quote/newline-rich text. `style` picks the alphabet mix.
fn gen_text(r: &mut Rng, d: u8, q: u8, n: u8, len: usize, style: u64) -> Vec<u8> {
    let mut t = Vec::with_capacity(len + 4);
    match style {
        // uniform over {d,q,n,a,b}
        0 => {
            for _ in 0..len {
                t.push(*r.pick(&[d, q, n, b'a', b'b']));
            }
        }
        // well-formed records: fields optionally quoted (with doubled quotes, embedded d/n)
        1 | 2 => {
            while t.len() < len {
                let nf = r.range(1, 5);
                for f in 0..nf {
                    if f > 0 {
                        t.push(d);
                    }
                    let fl = r.usize_below(5);
                    if r.chance(1, 3) {
                        t.push(q);
                        for _ in 0..fl {
                            match r.below(6) {
                                0 => {
                                    t.push(q);
                                    t.push(q);
                                }
                                1 => t.push(d),
                                2 => t.push(n),
                                _ => t.push(b'x'),
                            }
                        }
                        t.push(q);
                    } else {
                        for _ in 0..fl {
                            t.push(*r.pick(&[b'a', b'b', b' ', b'1']));
                        }
                    }
                }
                t.push(n);
            }
            if style == 2 {
                // drop the final separator (and sometimes more) so the text ends mid-record
                let cut = r.range(1, 3) as usize;
                let l = t.len().saturating_sub(cut);
                t.truncate(l);
            }
        }
        // mostly separators: many empty fields and empty rows
        3 => {
            for _ in 0..len {
                t.push(*r.pick(&[d, d, n, n, b'a', q]));
            }
        }
        // long fields spanning several index words, sparse markers (zero-marker words)
        4 => {
            for _ in 0..len {
                t.push(if r.chance(1, 90) { *r.pick(&[d, n, q]) } else { b'a' });
            }
        }
        // long quoted fields free of the delimiter and the newline (lengths around 1–4 chunks),
        // with / without doubled quotes and CR, as first / middle / last field, after a prefix of
        // varying length so the field crosses 64-byte boundaries at every alignment
        6 => {
            let prefix = r.usize_below(70);
            for _ in 0..prefix {
                t.push(*r.pick(&[b'a', b'b', d, b'c', n]));
            }
            if !t.is_empty() && *t.last().unwrap() != n {
                t.push(n);
            }
            while t.len() < len.max(80) {
                let nf = r.range(1, 4);
                let long_at = r.below(nf);
                for f in 0..nf {
                    if f > 0 {
                        t.push(d);
                    }
                    if f == long_at {
                        let fl = match r.below(5) {
                            0 => 60 + r.usize_below(11),
                            1 => 120 + r.usize_below(16),
                            2 => 190 + r.usize_below(11),
                            3 => 250 + r.usize_below(80),
                            _ => r.usize_below(140),
                        };
                        let fancy = r.chance(1, 2);
                        t.push(q);
                        for _ in 0..fl {
                            if fancy && r.chance(1, 30) {
                                t.push(q);
                                t.push(q);
                            } else if fancy && r.chance(1, 30) {
                                t.push(b'\r');
                            } else {
                                let b = *r.pick(&[b'x', b'y', b' ', b'1']);
                                t.push(if b == d || b == n || b == q { b'z' } else { b });
                            }
                        }
                        t.push(q);
                    } else {
                        for _ in 0..r.usize_below(4) {
                            t.push(b'a');
                        }
                    }
                }
                t.push(n);
            }
            if r.chance(1, 3) {
                t.pop();
            }
        }
        // random bytes with sprinkled specials
        _ => {
            for _ in 0..len {
                t.push(if r.chance(1, 2) { *r.pick(&[d, q, n]) } else { r.byte() });
            }
        }
    }
    t
}

fn gen_triple(r: &mut Rng, i: usize) -> (u8, u8, u8) {
    const FIXED: &[(u8, u8, u8)] = &[
        (b',', b'"', b'\n'),
        (b'\t', b'"', b'\n'),
        (b';', b'\'', b'\n'),
        (b'|', b'"', b'\r'),
        (0x00, b'"', b'\n'),
        (b',', 0xff, 0x00),
        (b'a', b'b', b'c'),
    ];
    if i % 2 == 0 {
        return FIXED[(i / 2) % FIXED.len()];
    }
    loop {
        let (d, q, n) = (r.byte(), r.byte(), r.byte());
        if d != q && q != n && d != n {
            return (d, q, n);
        }
    }
}

pub fn gen(tier: Tier, r: &mut Rng, emit: &mut dyn FnMut(String)) {
    let quick = tier == Tier::Quick;
    // ---- exhaustive tiny texts over {d,q,n,a} for the default configuration
    let (d, q, n) = (b',', b'"', b'\n');
    let max_len = if quick { 5 } else { 7 };
    let alpha = [d, q, n, b'a'];
    for len in 0..=max_len {
        for code in 0..(4usize.pow(len as u32)) {
            let mut c = code;
            let t: Vec<u8> = (0..len)
                .map(|_| {
                    let b = alpha[c % 4];
                    c /= 4;
                    b
                })
                .collect();
            let hx = hex_bytes(&t);
            emit(format!("C21 rows {d:02x} {q:02x} {n:02x} {hx}"));
            emit(format!("C21 get {d:02x} {q:02x} {n:02x} {hx}"));
            if len <= 3 {
                emit(format!("C21 rowss {d:02x} {q:02x} {n:02x} {hx}"));
            }
        }
    }
    // ---- generated texts
    let n_rand = if quick { 900 } else { 120_000 };
    for i in 0..n_rand {
        let (d, q, n) = gen_triple(r, i);
        let len = match i % 6 {
            0 => r.usize_below(12),
            1 => r.usize_below(40),
            2 => 56 + r.usize_below(16),
            3 => 120 + r.usize_below(16),
            4 => r.usize_below(300),
            _ => 64 * r.usize_below(5) + *r.pick(&[0usize, 1, 63]),
        };
        let style = (i / 6 % 8) as u64;
        let t = gen_text(r, d, q, n, len, style);
        let hx = hex_bytes(&t);
        emit(format!("C21 rows {d:02x} {q:02x} {n:02x} {hx}"));
        if i % 16 == 0 {
            emit(format!("C21 rowss {d:02x} {q:02x} {n:02x} {hx}"));
        }
        // t ++ n (append-separator invariance is a theorem about the spec; both texts are tied here)
        let mut t2 = t.clone();
        t2.push(n);
        emit(format!("C21 rows {d:02x} {q:02x} {n:02x} {}", hex_bytes(&t2)));
        if t.len() <= 160 || (style == 6 && t.len() <= 700 && i % 3 == 0) {
            emit(format!("C21 get {d:02x} {q:02x} {n:02x} {hx}"));
        }
        // cursor operation list
        let nops = r.range(1, 30);
        let nl_count = t.iter().filter(|&&b| b == n).count() as u64;
        let ops: Vec<String> = (0..nops)
            .map(|_| match r.below(10) {
                0..=3 => "f".to_string(),
                4 | 5 => "c".to_string(),
                6 => "r".to_string(),
                7 => "e".to_string(),
                _ => format!("g{}", r.below(nl_count + 3)),
            })
            .collect();
        emit(format!("C21 cur {d:02x} {q:02x} {n:02x} {hx} {}", ops.join(",")));
    }
    // ---- rank/select on raw words (zero words, dense words, bits beyond text_len)
    let n_rs = if quick { 1_000 } else { 60_000 };
    for i in 0..n_rs {
        let nw = r.usize_below(7);
        let ws: Vec<u64> = (0..nw)
            .map(|_| match r.below(5) {
                0 | 1 => 0,
                2 => r.sparse_word(4),
                3 => r.next_u64(),
                _ => 1u64 << r.below(64),
            })
            .collect();
        // text_len consistent with the word count (the constructors' contract), sometimes cutting bits off
        let text_len = if nw == 0 { 0 } else { (nw - 1) * 64 + 1 + r.usize_below(64) };
        let total: u64 = ws.iter().map(|w| w.count_ones() as u64).sum();
        let is: Vec<String> = (0..8)
            .map(|j| match j {
                0 => 0,
                1 => text_len,
                2 => text_len + 1,
                3 => text_len.saturating_sub(1),
                _ => r.usize_below(text_len + 2),
            })
            .map(|x| x.to_string())
            .collect();
        let ks: Vec<String> = (0..8)
            .map(|j| match j {
                0 => 0,
                1 => total,
                2 => total.saturating_sub(1),
                3 => total + 1,
                _ => r.below(total + 2),
            })
            .map(|x| x.to_string())
            .collect();
        let _ = i;
        emit(format!("C21 rs {} {text_len} {} {}", hex_words(&ws), is.join(","), ks.join(",")));
    }
}
