//! C08 — strict JSON validator (`succinctly::json::validate::validate`) on a near-valid stream.
//!
//! One op: `C08 v <bytes>` → `ok` or `<Kind[:payload]> <offset> <line> <column>`.
use crate::rng::Rng;
use crate::util::*;
use crate::Tier;
use succinctly::json::validate::{validate, ValidationErrorKind as K};

pub fn tables() -> Vec<(&'static str, String)> {
    vec![]
}

fn tag(s: &str) -> String {
    match s {
        "JSON value" => "value".into(),
        "string key" => "key".into(),
        "':'" => "colon".into(),
        "',' or '}'" => "comma-or-brace".into(),
        "',' or ']'" => "comma-or-bracket".into(),
        "expected 4 hex digits" => "hex4".into(),
        "unexpected end of input" => "eof".into(),
        "expected digit after minus sign" => "minus".into(),
        "expected digit after decimal point" => "frac".into(),
        "expected digit in exponent" => "exp".into(),
        other => other.replace(' ', "_"),
    }
}

fn kind_str(k: &K) -> String {
    match k {
        K::UnexpectedCharacter { expected, found } => format!("UnexpectedCharacter:{}:{}", tag(expected), *found as u32),
        K::UnexpectedEof { expected } => format!("UnexpectedEof:{}", tag(expected)),
        K::TrailingContent => "TrailingContent".into(),
        K::UnclosedString => "UnclosedString".into(),
        K::InvalidEscape { sequence } => format!("InvalidEscape:{}", *sequence as u32),
        K::InvalidUnicodeEscape { reason } => format!("InvalidUnicodeEscape:{}", tag(reason)),
        K::UnpairedSurrogate { codepoint } => format!("UnpairedSurrogate:{codepoint}"),
        K::ControlCharacter { byte } => format!("ControlCharacter:{byte}"),
        K::LeadingZero => "LeadingZero".into(),
        K::LeadingPlus => "LeadingPlus".into(),
        K::InvalidNumber { reason } => format!("InvalidNumber:{}", tag(reason)),
        K::InvalidKeyword { found } => format!("InvalidKeyword:{}", hex_bytes(found.as_bytes())),
        K::InvalidUtf8 => "InvalidUtf8".into(),
        K::NestingTooDeep { limit } => format!("NestingTooDeep:{limit}"),
    }
}

pub fn exec(a: &[&str]) -> String {
    match a[0] {
        "v" => {
            let b = parse_bytes(a[1]);
            match validate(&b) {
                Ok(()) => "ok".into(),
                Err(e) => format!("{} {} {} {}", kind_str(&e.kind), e.position.offset, e.position.line, e.position.column),
            }
        }
        _ => "BAD-OP".into(),
    }
}

// ---------------------------------------------------------------------------------------------
// generators

const WS: [u8; 4] = [b' ', b'\t', b'\n', b'\r'];

fn gap(r: &mut Rng, out: &mut Vec<u8>) {
    match r.below(10) {
        0..=5 => {}
        6 | 7 => out.push(*r.pick(&WS)),
        8 => {
            out.push(b'\r');
            out.push(b'\n');
        }
        _ => {
            for _ in 0..r.range(1, 3) {
                out.push(*r.pick(&WS));
            }
        }
    }
}

fn push_scalar_utf8(cp: u32, out: &mut Vec<u8>) {
    let c = char::from_u32(cp).unwrap_or('?');
    let mut buf = [0u8; 4];
    out.extend_from_slice(c.encode_utf8(&mut buf).as_bytes());
}

fn hex4(v: u32, r: &mut Rng, out: &mut Vec<u8>) {
    for sh in [12, 8, 4, 0] {
        let d = ((v >> sh) & 15) as u8;
        let c = if d < 10 { b'0' + d } else if r.chance(1, 2) { b'a' + d - 10 } else { b'A' + d - 10 };
        out.push(c);
    }
}

fn gen_string(r: &mut Rng, out: &mut Vec<u8>) {
    out.push(b'"');
    let n = r.below(6);
    for _ in 0..n {
        match r.below(12) {
            0..=3 => out.push(*r.pick(b"aZ09 _-/:,[]{}ue")),
            4 => {
                let c = r.range(0x20, 0x7e) as u8;
                out.push(if c == b'"' || c == b'\\' { b'x' } else { c });
            }
            5 => {
                out.push(b'\\');
                out.push(*r.pick(b"\"\\/bfnrt"));
            }
            6 => {
                out.push(b'\\');
                out.push(b'u');
                let v = *r.pick(&[0u32, 0x41, 0x7f, 0x80, 0xe9, 0x7ff, 0x800, 0xd7ff, 0xe000, 0xfffd, 0xffff, 0x0d0a, 0xd000, 0xabcd]);
                hex4(v, r, out);
            }
            7 => {
                // surrogate pair
                let hi = r.range(0xd800, 0xdbff) as u32;
                let lo = r.range(0xdc00, 0xdfff) as u32;
                let (hi, lo) = if r.chance(1, 3) { (*r.pick(&[0xd800u32, 0xdbff]), *r.pick(&[0xdc00u32, 0xdfff])) } else { (hi, lo) };
                out.extend_from_slice(b"\\u");
                hex4(hi, r, out);
                out.extend_from_slice(b"\\u");
                hex4(lo, r, out);
            }
            8 => push_scalar_utf8(*r.pick(&[0x80u32, 0xe9, 0x7ff]), out),
            9 => push_scalar_utf8(*r.pick(&[0x800u32, 0xfff, 0x1000, 0xcfff, 0xd000, 0xd7ff, 0xe000, 0xffff, 0x4e2d]), out),
            10 => push_scalar_utf8(*r.pick(&[0x10000u32, 0x3ffff, 0x40000, 0xfffff, 0x100000, 0x10ffff, 0x1f600]), out),
            _ => push_scalar_utf8(r.range(0x80, 0x10ffff) as u32, out),
        }
    }
    out.push(b'"');
}

fn gen_number(r: &mut Rng, out: &mut Vec<u8>) {
    if r.chance(1, 3) {
        out.push(b'-');
    }
    if r.chance(1, 3) {
        out.push(b'0');
    } else {
        out.push(r.range(b'1' as u64, b'9' as u64) as u8);
        for _ in 0..r.below(4) {
            out.push(r.range(b'0' as u64, b'9' as u64) as u8);
        }
    }
    if r.chance(1, 3) {
        out.push(b'.');
        for _ in 0..r.range(1, 3) {
            out.push(r.range(b'0' as u64, b'9' as u64) as u8);
        }
    }
    if r.chance(1, 3) {
        out.push(*r.pick(b"eE"));
        match r.below(3) {
            0 => out.push(b'+'),
            1 => out.push(b'-'),
            _ => {}
        }
        for _ in 0..r.range(1, 3) {
            out.push(r.range(b'0' as u64, b'9' as u64) as u8);
        }
    }
}

fn gen_value(r: &mut Rng, depth: u32, out: &mut Vec<u8>) {
    let k = if depth == 0 { r.below(6) } else { r.below(10) };
    match k {
        0 => out.extend_from_slice(b"null"),
        1 => out.extend_from_slice(b"true"),
        2 => out.extend_from_slice(b"false"),
        3 | 4 => gen_number(r, out),
        5 => gen_string(r, out),
        6 | 7 => {
            out.push(b'[');
            gap(r, out);
            let n = r.below(4);
            for i in 0..n {
                if i > 0 {
                    out.push(b',');
                    gap(r, out);
                }
                gen_value(r, depth - 1, out);
                gap(r, out);
            }
            out.push(b']');
        }
        _ => {
            out.push(b'{');
            gap(r, out);
            let n = r.below(4);
            for i in 0..n {
                if i > 0 {
                    out.push(b',');
                    gap(r, out);
                }
                gen_string(r, out);
                gap(r, out);
                out.push(b':');
                gap(r, out);
                gen_value(r, depth - 1, out);
                gap(r, out);
            }
            out.push(b'}');
        }
    }
}

fn gen_doc(r: &mut Rng, depth: u32) -> Vec<u8> {
    let mut out = Vec::new();
    gap(r, &mut out);
    gen_value(r, depth, &mut out);
    gap(r, &mut out);
    out
}

/// Bytes that are "interesting" replacements / insertions for a JSON text.
const HOT: &[u8] = b"\"\\/{}[],:-+.0159eEautfnl \t\n\r\x00\x1f\x7f\x80\xbf\xc0\xc2\xe0\xed\xf0\xf4\xf5\xff";

fn nest(open: &[u8], close: &[u8], n: usize, inner: &[u8]) -> Vec<u8> {
    let mut v = Vec::new();
    for _ in 0..n {
        v.extend_from_slice(open);
    }
    v.extend_from_slice(inner);
    for _ in 0..n {
        v.extend_from_slice(close);
    }
    v
}

pub fn gen(tier: Tier, r: &mut Rng, emit: &mut dyn FnMut(String)) {
    let quick = tier == Tier::Quick;
    let mut v = |b: &[u8]| emit(format!("C08 v {}", hex_bytes(b)));

    // ---- 1. fixed edge forms, each bare, in an array, and as an object member, with truncations
    let numbers: &[&[u8]] = &[
        b"-", b"-0", b"0", b"01", b"00", b"-01", b"1.", b"1.e1", b"1e", b"1e+", b"1e-", b"1E+5", b".5", b"-.5", b"+1", b"1.5.3",
        b"1e5e5", b"0.0", b"0e0", b"-0.0e-0", b"123456789012345678901234567890", b"1.0e+", b"0x10", b"1a", b"--1", b"-a", b"1-2",
        b"0.", b"0e", b"9", b"10", b"1.25E-7", b"Infinity", b"NaN", b"-Infinity",
    ];
    let keywords: &[&[u8]] = &[
        b"null", b"true", b"false", b"nul", b"nulll", b"tru", b"truee", b"fals", b"falsey", b"n", b"t", b"f", b"nullx", b"nullX",
        b"null1", b"truefalse", b"True", b"NULL", b"none", b"nil", b"undefined", b"tr\nue",
    ];
    for lits in [numbers, keywords] {
        for lit in lits {
            v(lit);
            for (pre, post) in [(&b"["[..], &b"]"[..]), (b"[ ", b" ]"), (b"[1,", b",2]"), (b"{\"a\":", b"}"), (b" ", b"\n"), (b"\r\n", b"\r")] {
                let mut d = pre.to_vec();
                d.extend_from_slice(lit);
                d.extend_from_slice(post);
                v(&d);
                d.truncate(pre.len() + lit.len());
                v(&d);
            }
        }
    }
    // ---- 2. depth probes around MAX_NESTING_DEPTH
    for n in 124..=132usize {
        for inner in [&b""[..], b"1", b"\"x\"", b" "] {
            v(&nest(b"[", b"]", n, inner));
            v(&nest(b"{\"a\":", b"}", n, if inner.is_empty() || inner == b" " { b"0" } else { inner }));
            v(&nest(b"[{\"k\": ", b"}]", n / 2, inner_or(inner)));
            v(&nest(b"[ ", b" ]", n, inner));
        }
        // unclosed / over-closed
        let mut d = nest(b"[", b"]", n, b"");
        d.pop();
        v(&d);
        d.push(b']');
        d.push(b']');
        v(&d);
        v(&vec![b'['; n]);
        v(&nest(b"{\"a\":", b"", n, b""));
        // siblings do not accumulate depth
        let mut s = b"[".to_vec();
        for i in 0..3 {
            if i > 0 {
                s.push(b',');
            }
            s.extend_from_slice(&nest(b"[", b"]", n - 1, b""));
        }
        s.push(b']');
        v(&s);
    }
    // ---- 3. surrogate-escape combinations
    let units: &[&[u8]] = &[
        b"0041", b"D7FF", b"D800", b"d800", b"DBFF", b"dbff", b"DC00", b"dc00", b"DFFF", b"dFfF", b"E000", b"FFFF", b"0000", b"D83D",
        b"DE00", b"D8", b"D", b"DC", b"DB", b"d", b"dB0", b"dC0", b"G000", b"000G", b"D80G", b"",
    ];
    for a in units {
        for tail in [&b"\""[..], b"A\"", b"", b"\\n\"", b"\\", b"\\u", b"\\\"", b"\xc3\xa9\""] {
            let mut d = b"\"\\u".to_vec();
            d.extend_from_slice(a);
            d.extend_from_slice(tail);
            v(&d);
        }
        for b in units {
            for (pre, post) in [(&b"\""[..], &b"\""[..]), (b"[\"x", b"y\"]"), (b"{\"", b"\":1}"), (b"\"", b"")] {
                let mut d = pre.to_vec();
                d.extend_from_slice(b"\\u");
                d.extend_from_slice(a);
                d.extend_from_slice(b"\\u");
                d.extend_from_slice(b);
                d.extend_from_slice(post);
                v(&d);
            }
        }
    }
    // ---- 4. UTF-8 edge sequences inside strings
    let seqs: &[&[u8]] = &[
        b"\x7f", b"\x80", b"\xbf", b"\xc0\x80", b"\xc1\xbf", b"\xc2\x80", b"\xc2\x7f", b"\xc2\xc0", b"\xdf\xbf", b"\xc2", b"\xe0\x80\x80",
        b"\xe0\x9f\xbf", b"\xe0\xa0\x80", b"\xe0\xa0", b"\xe0", b"\xed\x9f\xbf", b"\xed\xa0\x80", b"\xed\xbf\xbf", b"\xee\x80\x80",
        b"\xef\xbf\xbf", b"\xef\xbf", b"\xe1\x80\x7f", b"\xe1\x7f\x80", b"\xf0\x80\x80\x80", b"\xf0\x8f\xbf\xbf", b"\xf0\x90\x80\x80",
        b"\xf0\x90\x80", b"\xf0\x90", b"\xf0", b"\xf4\x8f\xbf\xbf", b"\xf4\x90\x80\x80", b"\xf5\x80\x80\x80", b"\xf7\xbf\xbf\xbf",
        b"\xf8\x88\x80\x80\x80", b"\xfe", b"\xff", b"\xf1\x80\x80\xc0", b"\xf1\x80\x7f\x80", b"\xf3\xbf\xbf\xbf", b"\xe2\x82\xac",
        b"\xf0\x9f\x98\x80", b"\xc3\xa9",
    ];
    for s in seqs {
        for (pre, post) in [(&b"\""[..], &b"\""[..]), (b"\"a", b"b\""), (b"[\"", b"\"]"), (b"{\"", b"\":0}"), (b"\"", b""), (b"", b""), (b"[", b"]")] {
            let mut d = pre.to_vec();
            d.extend_from_slice(s);
            d.extend_from_slice(post);
            v(&d);
        }
    }
    // all control / escape bytes in a string and after a backslash
    for b in 0..=255u8 {
        v(&[b'"', b, b'"']);
        v(&[b'"', b'\\', b, b'"']);
        v(&[b]);
        v(&[b'[', b]);
        v(&[b'[', b'1', b]);
        v(&[b'{', b]);
        v(&[b'{', b'"', b'"', b]);
        v(&[b'{', b'"', b'"', b':', b]);
        v(&[b'{', b'"', b'"', b':', b'1', b]);
        v(&[b'1', b' ', b]);
        v(&[b'"', b'\\', b'u', b'1', b, b'0', b'0', b'"']);
    }
    // ---- 5. line / column: breaks before an error
    for brk in [&b"\n"[..], b"\r", b"\r\n", b"\n\r", b"\r\r\n", b"\n\n", b" \t\r\n\t"] {
        for bad in [&b"x"[..], b"[1,\n]", b"\"\n\"", b"[1\r\n,\r2\n\rx]", b"{\"a\"\r\n:\r\n1\r,\n}", b"tru", b"01"] {
            let mut d = brk.to_vec();
            d.extend_from_slice(bad);
            v(&d);
            let mut d2 = b"[".to_vec();
            d2.extend_from_slice(brk);
            d2.extend_from_slice(brk);
            d2.extend_from_slice(bad);
            v(&d2);
        }
    }
    // ---- 6. generated documents + mutations
    let ndocs = if quick { 260 } else { 6000 };
    for i in 0..ndocs {
        let depth = if i % 7 == 0 { 4 } else { 2 };
        let mut d = gen_doc(r, depth);
        if d.len() > 160 {
            d.truncate(160);
        }
        v(&d);
        // truncations at every offset
        for k in 0..d.len() {
            v(&d[..k]);
        }
        // single-byte mutation at every offset: one hot byte + one random byte
        for k in 0..d.len() {
            let mut m = d.clone();
            m[k] = *r.pick(HOT);
            v(&m);
            m[k] = r.byte();
            v(&m);
        }
        // deletion at every offset
        for k in 0..d.len() {
            let mut m = d.clone();
            m.remove(k);
            v(&m);
        }
        // insertion of each of the 256 byte values at sampled offsets
        let noff = if quick { 1 } else { 4 };
        for _ in 0..noff {
            let k = r.usize_below(d.len() + 1);
            for b in 0..=255u8 {
                let mut m = d.clone();
                m.insert(k, b);
                v(&m);
            }
        }
        // insertion of a hot byte at every offset
        for k in 0..=d.len() {
            let mut m = d.clone();
            m.insert(k, *r.pick(HOT));
            v(&m);
        }
    }
    // ---- 7. arbitrary bytes (JSON alphabet-biased and uniform)
    let nrand = if quick { 6000 } else { 300_000 };
    for i in 0..nrand {
        let n = r.range(0, 12) as usize;
        let d: Vec<u8> = (0..n).map(|_| if i % 3 == 0 { r.byte() } else { *r.pick(HOT) }).collect();
        v(&d);
    }
    // ---- 8. a few larger documents
    for _ in 0..(if quick { 20 } else { 400 }) {
        let d = gen_doc(r, 7);
        v(&d);
        if !d.is_empty() {
            let k = r.usize_below(d.len());
            let mut m = d.clone();
            m[k] = *r.pick(HOT);
            v(&m);
            v(&d[..k]);
        }
    }
}

fn inner_or(inner: &[u8]) -> &[u8] {
    if inner.is_empty() || inner == b" " {
        b"null"
    } else {
        inner
    }
}
