//! C03 — Elias–Fano sequences: build, get, predecessor, iteration and cursor histories.
//!
//! One request = `C03 run <seq> <ops>`; the cursor session lives inside the request.
//!   <seq>  comma-separated decimal u32 values, non-decreasing (`-` = empty)
//!   <ops>  comma-separated operations (`-` = none); the session starts with `ef.cursor()`:
//!     a        cursor.advance_one()            b<k>  cursor.advance_by(k)
//!     s<i>     cursor.seek(i)                  f<i>  cursor = ef.cursor_from(i)
//!     z        cursor = ef.cursor()            c     cursor.current()
//!     i / e    cursor.index() / is_exhausted() (observed after every cursor op anyway)
//!     g<i>     ef.get(i)                       p<v>  ef.predecessor(v)
//!     l / u    ef.len() / ef.universe()        t     (&ef).into_iter().collect()
//! Answer: one field per op joined by `,`, then ` ORACLE-OK` or ` ORACLE-FAIL@<op#>:<expected>`
//! from the plain-sequence oracle run in-process (the model always prints ` ORACLE-OK`).
//!   cursor op  ->  <ret>/<current>/<index>/<exhausted 0|1>   (`=` for ops without a return value)
//!   g -> value | `-`     p -> idx:value | `-`     l,u -> number     t -> v.v.v… | `-`
use crate::rng::Rng;
use crate::Tier;
use succinctly::bits::EliasFano;

pub fn tables() -> Vec<(&'static str, String)> {
    Vec::new()
}

fn o32(o: Option<u32>) -> String {
    match o {
        Some(v) => v.to_string(),
        None => "-".into(),
    }
}

fn parse_seq(s: &str) -> Vec<u32> {
    if s == "-" {
        return Vec::new();
    }
    s.split(',').map(|t| t.parse::<u32>().expect("u32 value")).collect()
}

fn arg(op: &str) -> usize {
    op[1..].parse::<usize>().expect("usize argument")
}

/// The plain sequence the property compares against: an index into `vs`.
struct Plain<'a> {
    vs: &'a [u32],
    idx: usize,
}

impl Plain<'_> {
    fn cur(&self) -> Option<u32> {
        self.vs.get(self.idx).copied()
    }
    fn goto(&mut self, i: Option<usize>) -> Option<u32> {
        let n = self.vs.len();
        self.idx = match i {
            Some(i) if i < n => i,
            _ => n,
        };
        self.cur()
    }
    fn obs(&self, ret: &str) -> String {
        format!("{ret}/{}/{}/{}", o32(self.cur()), self.idx, (self.idx >= self.vs.len()) as u8)
    }
}

fn plain_answer(p: &mut Plain, op: &str) -> String {
    let vs = p.vs;
    match op.as_bytes()[0] {
        b'a' => {
            let r = p.goto(p.idx.checked_add(1));
            p.obs(&o32(r))
        }
        b'b' => {
            let r = p.goto(p.idx.checked_add(arg(op)));
            p.obs(&o32(r))
        }
        b's' => {
            let r = p.goto(Some(arg(op)));
            p.obs(&o32(r))
        }
        b'f' => {
            p.goto(Some(arg(op)));
            p.obs("=")
        }
        b'z' => {
            p.goto(Some(0));
            p.obs("=")
        }
        b'c' => p.obs(&o32(p.cur())),
        b'i' | b'e' => p.obs("="),
        b'g' => o32(vs.get(arg(op)).copied()),
        b'p' => {
            let v = arg(op) as u64;
            // last index holding the largest element <= v
            let mut best = None;
            for (i, &x) in vs.iter().enumerate() {
                if x as u64 <= v {
                    best = Some((i, x));
                }
            }
            match best {
                Some((i, x)) => format!("{i}:{x}"),
                None => "-".into(),
            }
        }
        b'l' => vs.len().to_string(),
        b'u' => vs.last().map(|&m| m as u64 + 1).unwrap_or(0).to_string(),
        b't' => {
            if vs.is_empty() {
                "-".into()
            } else {
                vs.iter().map(|v| v.to_string()).collect::<Vec<_>>().join(".")
            }
        }
        _ => "BAD-OP".into(),
    }
}

/// `C03 big <n> <mul> <i,i,…>`: the arithmetic sequence `vs[j] = mul·j` of `n` elements (too long
/// to be written into a request), `get(i)` for the listed indices. Manual replays only.
fn exec_big(a: &[&str]) -> String {
    let n: usize = a[1].parse().expect("n");
    let mul: u64 = a[2].parse().expect("mul");
    let vs: Vec<u32> = (0..n as u64).map(|j| (mul * j) as u32).collect();
    let ef = EliasFano::build(&vs);
    let mut out = Vec::new();
    let mut fail = None;
    for (k, t) in a[3].split(',').enumerate() {
        let i: usize = t.parse().expect("index");
        let got = o32(ef.get(i));
        let want = o32(vs.get(i).copied());
        if fail.is_none() && got != want {
            fail = Some(format!("ORACLE-FAIL@{k}:{want}"));
        }
        out.push(got);
    }
    format!("{} {}", out.join(","), fail.unwrap_or_else(|| "ORACLE-OK".into()))
}

pub fn exec(a: &[&str]) -> String {
    if a.len() == 4 && a[0] == "big" {
        return exec_big(a);
    }
    if a.len() != 3 || a[0] != "run" {
        return "BAD-OP".into();
    }
    let vs = parse_seq(a[1]);
    let ef = EliasFano::build(&vs);
    let mut cur = ef.cursor();
    let mut plain = Plain { vs: &vs, idx: 0 };
    let mut out: Vec<String> = Vec::new();
    let mut fail: Option<String> = None;
    let ops: Vec<&str> = if a[2] == "-" { Vec::new() } else { a[2].split(',').collect() };
    for (n, op) in ops.iter().enumerate() {
        let obs = |ret: String, c: &succinctly::bits::EliasFanoCursor| {
            format!("{ret}/{}/{}/{}", o32(c.current()), c.index(), c.is_exhausted() as u8)
        };
        let ans = match op.as_bytes()[0] {
            b'a' => {
                let r = cur.advance_one();
                obs(o32(r), &cur)
            }
            b'b' => {
                let r = cur.advance_by(arg(op));
                obs(o32(r), &cur)
            }
            b's' => {
                let r = cur.seek(arg(op));
                obs(o32(r), &cur)
            }
            b'f' => {
                cur = ef.cursor_from(arg(op));
                obs("=".into(), &cur)
            }
            b'z' => {
                cur = ef.cursor();
                obs("=".into(), &cur)
            }
            b'c' => obs(o32(cur.current()), &cur),
            b'i' | b'e' => obs("=".into(), &cur),
            b'g' => o32(ef.get(arg(op))),
            b'p' => match ef.predecessor(arg(op) as u32) {
                Some((i, x)) => format!("{i}:{x}"),
                None => "-".into(),
            },
            b'l' => ef.len().to_string(),
            b'u' => ef.universe().to_string(),
            b't' => {
                let all: Vec<u32> = (&ef).into_iter().collect();
                if all.is_empty() {
                    "-".into()
                } else {
                    all.iter().map(|v| v.to_string()).collect::<Vec<_>>().join(".")
                }
            }
            _ => "BAD-OP".into(),
        };
        let want = plain_answer(&mut plain, op);
        if fail.is_none() && want != ans {
            fail = Some(format!("ORACLE-FAIL@{n}:{want}"));
        }
        out.push(ans);
    }
    let body = if out.is_empty() { "-".to_string() } else { out.join(",") };
    format!("{body} {}", fail.unwrap_or_else(|| "ORACLE-OK".into()))
}

// ------------------------------------------------------------------------------------------------
// generators

const LENGTHS: [usize; 11] = [0, 1, 2, 255, 256, 257, 511, 512, 513, 1000, 5000];

fn gen_seq(r: &mut Rng, n: usize, kind: u64) -> Vec<u32> {
    let mut v: Vec<u64> = Vec::with_capacity(n);
    let max = u32::MAX as u64;
    match kind {
        // small gaps 0..3 (dense, many duplicates)
        0 => {
            let mut x = r.below(5);
            for _ in 0..n {
                v.push(x);
                x += r.below(4);
            }
        }
        // uniform in [0, U) for a universe that exercises every low width
        1 => {
            let w = r.below(33);
            let u = ((n.max(1) as u64) << w).min(max + 1).max(1);
            let u = if r.chance(1, 2) { u } else { r.range(1, u) };
            for _ in 0..n {
                v.push(r.below(u));
            }
            v.sort_unstable();
        }
        // constant
        2 => {
            let rnd = r.below(max + 1);
            let c = *r.pick(&[0u64, 1, 63, 64, 65, 1 << 31, max - 1, max, rnd]);
            v.resize(n, c);
        }
        // dense run i + base
        3 => {
            let sh = r.below(32);
            let base = if r.chance(1, 3) { max + 1 - n as u64 } else { r.below(1 << sh) };
            for i in 0..n {
                v.push((base + i as u64).min(max));
            }
        }
        // heavy duplicates: runs of equal values with random gaps
        4 => {
            let mut x = r.below(100);
            while v.len() < n {
                let cap = *r.pick(&[2usize, 5, 70, 300]);
                let run = 1 + r.usize_below(cap);
                for _ in 0..run.min(n - v.len()) {
                    v.push(x);
                }
                let gap = *r.pick(&[1u64, 3, 64, 1000, 1 << 20]);
                x = (x + 1 + r.below(gap)).min(max);
            }
        }
        // dense runs separated by huge gaps, reaching u32::MAX
        5 => {
            let mut x = 0u64;
            while v.len() < n {
                let run = 1 + r.usize_below(90);
                for _ in 0..run.min(n - v.len()) {
                    v.push(x.min(max));
                    x += r.below(2);
                }
                let sh = r.range(1, 31);
                x += r.below(1 << sh);
            }
            if n > 0 && r.chance(1, 2) {
                let k = 1 + r.usize_below(n.min(3));
                for j in 0..k {
                    v[n - 1 - j] = max;
                }
            }
        }
        // geometric gaps: mostly small, sometimes enormous
        6 => {
            let mut x = 0u64;
            for _ in 0..n {
                v.push(x.min(max));
                let sh = r.below(33);
                x += r.below((1u64 << sh).max(1)) >> r.below(8);
            }
        }
        // two clusters: [0..) and [.. u32::MAX]
        _ => {
            let split = r.usize_below(n + 1);
            for i in 0..n {
                if i < split {
                    v.push(i as u64 / (1 + r.below(3)));
                } else {
                    v.push(max - ((n - 1 - i) as u64) * (r.below(3)));
                }
            }
            v.sort_unstable();
        }
    }
    v.into_iter().map(|x| x.min(max) as u32).collect()
}

fn fmt_seq(vs: &[u32]) -> String {
    if vs.is_empty() {
        "-".into()
    } else {
        vs.iter().map(|v| v.to_string()).collect::<Vec<_>>().join(",")
    }
}

/// A cursor history of `len` operations biased toward exhaustion and re-seek after exhaustion.
fn gen_history(r: &mut Rng, n: usize, len: usize) -> Vec<String> {
    let mut ops = Vec::with_capacity(len);
    let mut idx = 0usize; // plain index, to steer the generator
    let big_k: [usize; 8] = [63, 64, 65, 66, 127, 128, 129, 256];
    while ops.len() < len {
        let exhausted = idx >= n;
        let roll = r.below(100);
        if exhausted && roll < 55 {
            // re-position after exhaustion
            let i = if n == 0 { 0 } else { r.usize_below(n) };
            match r.below(4) {
                0 => {
                    ops.push(format!("f{i}"));
                    idx = i;
                }
                1 => {
                    ops.push("z".into());
                    idx = 0;
                }
                _ => {
                    ops.push(format!("s{i}"));
                    idx = i;
                }
            }
            continue;
        }
        match roll {
            0..=34 => {
                // a burst of advance_one (crosses words / zero words)
                let burst = if r.chance(1, 8) { 1 + r.usize_below(80) } else { 1 + r.usize_below(3) };
                for _ in 0..burst.min(len - ops.len()) {
                    ops.push("a".into());
                    idx = (idx + 1).min(n);
                }
            }
            35..=59 => {
                let left = n.saturating_sub(idx);
                let k = match r.below(10) {
                    0 => 0,
                    1 => 1,
                    2 | 3 => 2 + r.usize_below(7),
                    4 => *r.pick(&big_k),
                    5 => r.usize_below(65),
                    6 => left.saturating_sub(1),            // lands on the last element
                    7 => left + r.usize_below(2),           // exactly past the end
                    8 => r.usize_below(left + 2),
                    _ => *r.pick(&[1usize << 20, 1 << 32, u32::MAX as usize, 1 << 62, (1 << 63) - 1, 1 << 63,
                        usize::MAX - n, usize::MAX - 1, usize::MAX]),
                };
                ops.push(format!("b{k}"));
                idx = idx.saturating_add(k).min(n);
            }
            60..=74 => {
                let i = match r.below(8) {
                    0 => 0,
                    1 => n.saturating_sub(1),
                    2 => n,
                    3 => n + 1 + r.usize_below(3),
                    4 => *r.pick(&[usize::MAX, 1 << 32, 1 << 63]),
                    5 => idx.saturating_sub(r.usize_below(3)), // backwards / same place
                    _ => r.usize_below(n + 1),
                };
                ops.push(format!("s{i}"));
                idx = i.min(n);
            }
            75..=84 => {
                let i = match r.below(6) {
                    0 => 0,
                    1 => n.saturating_sub(1),
                    2 => n,
                    3 => *r.pick(&[usize::MAX, n + 1, 1 << 40]),
                    _ => r.usize_below(n + 1),
                };
                ops.push(format!("f{i}"));
                idx = i.min(n);
            }
            85..=87 => {
                ops.push("z".into());
                idx = 0;
            }
            88..=93 => ops.push("c".into()),
            94..=96 => ops.push("i".into()),
            _ => ops.push("e".into()),
        }
    }
    ops.truncate(len);
    ops
}

fn probes(r: &mut Rng, vs: &[u32], cap: usize) -> Vec<String> {
    let n = vs.len();
    let mut ops: Vec<String> = vec!["l".into(), "u".into(), "t".into()];
    let all = n <= cap;
    let pick: Vec<usize> = if all {
        (0..n).collect()
    } else {
        let mut p: Vec<usize> = (0..cap).map(|_| r.usize_below(n)).collect();
        p.extend([0, 1, n - 1, n - 2, 255, 256, 257, 511, 512, 513].iter().filter(|&&i| i < n));
        p
    };
    for &i in &pick {
        ops.push(format!("g{i}"));
        let e = vs[i] as u64;
        for v in [e.wrapping_sub(1), e, e + 1] {
            if v <= u32::MAX as u64 {
                ops.push(format!("p{v}"));
            }
        }
    }
    for i in [n, n + 1, usize::MAX, 1 << 32] {
        ops.push(format!("g{i}"));
    }
    ops.push("p0".into());
    ops.push(format!("p{}", u32::MAX));
    for _ in 0..8 {
        let sh = r.range(1, 32);
        ops.push(format!("p{}", r.below(1u64 << sh)));
    }
    ops
}

fn ops_str(ops: &[String]) -> String {
    if ops.is_empty() {
        "-".into()
    } else {
        ops.join(",")
    }
}

pub fn gen(tier: Tier, r: &mut Rng, emit: &mut dyn FnMut(String)) {
    let quick = tier == Tier::Quick;
    let hist_len = if quick { 200 } else { 2000 };
    let probe_cap = if quick { 120 } else { 100_000 };
    // 1. the boundary lengths × every sequence class: probes + one history each
    let rounds = if quick { 1 } else { 3 };
    for _ in 0..rounds {
        for &n in &LENGTHS {
            for kind in 0..8u64 {
                if quick && n == 5000 && kind % 3 != 0 {
                    continue;
                }
                let vs = gen_seq(r, n, kind);
                let s = fmt_seq(&vs);
                emit(format!("C03 run {s} {}", ops_str(&probes(r, &vs, probe_cap))));
                let h = gen_history(r, n, hist_len);
                emit(format!("C03 run {s} {}", ops_str(&h)));
            }
        }
    }
    // 2. many small/medium sequences: all probes + histories of varying length
    let small = if quick { 450 } else { 12_000 };
    for j in 0..small {
        let n = match r.below(10) {
            0 => r.usize_below(4),
            1..=5 => r.usize_below(70),
            6 | 7 => r.usize_below(300),
            8 => 250 + r.usize_below(20),
            _ => 505 + r.usize_below(20),
        };
        let kind = r.below(8);
        let vs = gen_seq(r, n, kind);
        let s = fmt_seq(&vs);
        if j % 4 == 0 {
            emit(format!("C03 run {s} {}", ops_str(&probes(r, &vs, if quick { 40 } else { 400 }))));
        }
        let len = if r.chance(1, 10) { hist_len } else { 1 + r.usize_below(60) };
        let h = gen_history(r, n, len);
        emit(format!("C03 run {s} {}", ops_str(&h)));
        // a full walk with advance_one past the end, observed at every step
        if j % 16 == 0 {
            let walk: Vec<String> = (0..n + 2).map(|_| "a".to_string()).collect();
            emit(format!("C03 run {s} {}", ops_str(&walk)));
        }
        // a full walk with a fixed stride
        if j % 16 == 8 {
            let k = *r.pick(&[2usize, 3, 7, 31, 63, 64, 65]);
            let walk: Vec<String> = (0..n / k + 2).map(|_| format!("b{k}")).collect();
            emit(format!("C03 run {s} {}", ops_str(&walk)));
        }
    }
}
