//! C27 — `succinctly jq` / `succinctly yq` output does not depend on the evaluation route.
//!
//! Request : `C27 <jq|yq> <class> <flags> <prog-hex> <doc-hex>[,<doc-hex>…]`
//!   jq flags : as C11 (c, i0..i7, tab, S, a, r, j, z, P);  yq flags : oj (-o json), I<n>, tab, S, r, pj (-p json)
//!   class    : which generator class produced the request (`core` = the presentation subset on which
//!              the routes are expected to agree — since the `fix:` commits it includes `--indent 0`
//!              and raw DEL; the other classes each inject one feature and are the class predicates of
//!              the recorded findings)
//! Every request runs the CLI two or three times on the same input:
//!   default routing  |  materialised route forced  |  (jq identity only) the neutral spelling `(.)|.`
//! jq: `SUCCINCTLY_VERIF_FORCE_MATERIALIZE=1` (verif-hooks switch on `can_use_lazy_path`);
//! yq: an unused `--arg _v 0` (the M2 fast paths require `context.named.is_empty()`).
//! Answer  : `SAME <len> <fnv64>`  or  `DIFF <which> <first differing offset> a=<hex window> b=<hex window>`
//!           (`DIFF <which> rc a=<n> b=<n>` when only the exit codes differ). The driver answers `SAME`.
use crate::c11::{self, fnv64, gen_g, parse_flags, run_cli, write_g, G};
use crate::rng::Rng;
use crate::util::*;
use crate::Tier;

pub fn tables() -> Vec<(&'static str, String)> {
    Vec::new()
}

fn yq_args(flags: &str) -> Vec<String> {
    let mut a = Vec::new();
    for t in flags.split(',') {
        match t {
            "oj" => {
                a.push("-o".into());
                a.push("json".into());
            }
            "pj" => {
                a.push("-p".into());
                a.push("json".into());
            }
            "tab" => a.push("--tab".into()),
            "S" => a.push("-S".into()),
            "r" => a.push("-r".into()),
            t if t.starts_with('I') => {
                a.push("-I".into());
                a.push(t[1..].to_string());
            }
            _ => {}
        }
    }
    a
}

fn window(b: &[u8], at: usize) -> String {
    let lo = at.saturating_sub(8);
    let hi = (at + 16).min(b.len());
    hex_bytes(&b[lo..hi])
}

fn compare(which: &str, a: &c11::Run, b: &c11::Run) -> Option<String> {
    if a.stdout != b.stdout {
        let n = a.stdout.iter().zip(&b.stdout).take_while(|(x, y)| x == y).count();
        return Some(format!("DIFF {which} {n} a={} b={}", window(&a.stdout, n), window(&b.stdout, n)));
    }
    if a.rc != b.rc {
        return Some(format!("DIFF {which} rc a={} b={}", a.rc, b.rc));
    }
    None
}

pub fn exec(a: &[&str]) -> String {
    if a.len() != 5 {
        return "BAD-OP".into();
    }
    let tool = a[0];
    let flags = a[2];
    let prog = String::from_utf8(parse_bytes(a[3])).unwrap_or_default();
    let docs: Vec<Vec<u8>> = a[4].split(',').map(parse_bytes).collect();
    match tool {
        "jq" => {
            let f = parse_flags(flags);
            let mut stdin = Vec::new();
            for d in &docs {
                if f.seq {
                    stdin.push(0x1e);
                }
                stdin.extend_from_slice(d);
                stdin.push(b'\n');
            }
            let mk = |p: &str| {
                let mut args = vec!["jq".to_string()];
                args.extend(c11::cli_args(&f));
                args.push(p.to_string());
                args
            };
            let base = run_cli(&mk(&prog), &stdin, &[]);
            // --preserve-input is implemented by the lazy route only (documented: "preserves … on
            // output only", docs/compliance/jq/limitations.md) — forcing the materialised route is
            // not semantically neutral there, so only the neutral re-spelling is compared.
            if !f.preserve {
                let forced = run_cli(&mk(&prog), &stdin, &[("SUCCINCTLY_VERIF_FORCE_MATERIALIZE", "1")]);
                let ferr = String::from_utf8_lossy(&forced.stderr);
                if !ferr.contains("verif-route: original") {
                    return "HOOK-NOT-HONOURED".into();
                }
                if let Some(d) = compare("forced", &base, &forced) {
                    return d;
                }
            }
            if prog == "." {
                let neutral = run_cli(&mk("(.)|."), &stdin, &[]);
                if let Some(d) = compare("neutral", &base, &neutral) {
                    return d;
                }
            }
            format!("SAME {} {:016x}", base.stdout.len(), fnv64(&base.stdout))
        }
        "yq" => {
            let mut stdin = Vec::new();
            for (i, d) in docs.iter().enumerate() {
                if i > 0 {
                    stdin.extend_from_slice(b"---\n");
                }
                stdin.extend_from_slice(d);
                if !d.ends_with(b"\n") {
                    stdin.push(b'\n');
                }
            }
            let mut args = vec!["yq".to_string()];
            args.extend(yq_args(flags));
            let mut forced_args = args.clone();
            forced_args.extend(["--arg".to_string(), "_v".to_string(), "0".to_string()]);
            args.push(prog.clone());
            forced_args.push(prog.clone());
            let base = run_cli(&args, &stdin, &[]);
            let forced = run_cli(&forced_args, &stdin, &[]);
            if let Some(d) = compare("forced", &base, &forced) {
                return d;
            }
            format!("SAME {} {:016x}", base.stdout.len(), fnv64(&base.stdout))
        }
        _ => "BAD-OP".into(),
    }
}

// ------------------------------------------------------------------ YAML documents (core subset)

#[derive(Clone, Debug)]
enum Y {
    Scalar(String), // presentation text, usable as a block value and as a flow entry
    Map(Vec<(String, Y)>),
    Seq(Vec<Y>),
    FlowSeq(Vec<String>),
    FlowMap(Vec<(String, String)>),
    /// block scalar: header (`|`, `>`, `|-`, `>+` …) and content lines
    Block(String, Vec<String>),
}

const YKEYS: [&str; 6] = ["a", "b", "c", "d", "e", "key"];

fn y_scalar(r: &mut Rng) -> String {
    match r.below(12) {
        0 => "null".into(),
        1 => (if r.chance(1, 2) { "true" } else { "false" }).into(),
        2 | 3 => format!("{}", r.below(2000) as i64 - 1000),
        4 => format!("{}.{}", r.below(100), r.range(1, 9)),
        5 => r.pick(&["1.5e3", "0.10", "-0.25", "2.50", "100", "0", "7"]).to_string(),
        6 | 7 => {
            let n = r.range(1, 8);
            (0..n).map(|_| (b'a' + r.below(26) as u8) as char).collect()
        }
        8 => format!("\"{}\"", r.pick(&["s t", "x\\ny", "q\\\"q", "\\\\", "caf\u{e9}", "", "1", "true", "a: b", "- x"])),
        9 => format!("'{}'", r.pick(&["single", "it''s", "", "x y", "null"])),
        10 => r.pick(&["hello world", "a-b", "x_y", "v1.2.3", "xyz"]).to_string(),
        _ => format!("{}", r.below(10)),
    }
}

/// Every YAML 1.2 double-quoted escape, and the code points that matter to a JSON writer.
/// (`\\L`, `\\P`, `\\u2028`, `\\u2029` are generated in their own class `lsps`: recorded finding C27-yq-lsps)
const DQ_SIMPLE: [&str; 15] = [
    "\\0", "\\a", "\\b", "\\t", "\\n", "\\v", "\\f", "\\r", "\\e", "\\ ", "\\\"", "\\/", "\\\\", "\\N", "\\_",
];
const DQ_X: [&str; 24] = [
    "00", "01", "07", "08", "09", "0a", "0c", "0d", "1b", "1f", "20", "22", "27", "2f", "41", "5c", "5C", "7e", "7f", "80",
    "85", "a0", "e9", "ff",
];
/// (`\\ud800`…`\\udfff` — not Unicode scalar values, i.e. ill-formed YAML — are generated in the class
/// `surrogate`: recorded finding C27-yq-surrogate-escape)
const DQ_U: [&str; 16] = [
    "0000", "0022", "005c", "005C", "002f", "0041", "001f", "007f", "0085", "00e9", "2027", "202a", "d7ff", "e000", "fffd",
    "ffff",
];
const DQ_BIGU: [&str; 7] = ["00000041", "00000022", "0000005c", "0000000a", "0001f600", "00010000", "0010ffff"];
const DQ_LIT: [&str; 14] = ["a", "Z", "0", " ", "'", "/", ":", "#", "-", "{", ",", "\u{e9}", "\u{1f600}", "x y"];

/// body of a double-quoted scalar drawn from the escape alphabet
fn y_dq_body(r: &mut Rng) -> String {
    let n = *r.pick(&[0usize, 1, 1, 2, 3, 4, 6, 10]);
    let mut s = String::new();
    for _ in 0..n {
        match r.below(12) {
            0..=2 => s.push_str(*r.pick(&DQ_SIMPLE)),
            3..=5 => {
                s.push_str("\\x");
                if r.chance(3, 4) {
                    s.push_str(*r.pick(&DQ_X));
                } else {
                    s.push_str(&format!("{:02x}", r.below(256)));
                }
            }
            6 | 7 => {
                s.push_str("\\u");
                if r.chance(7, 8) {
                    s.push_str(*r.pick(&DQ_U));
                } else {
                    // any BMP value outside the surrogate range
                    let v = r.below(0xd800);
                    let v = if v == 0x2028 || v == 0x2029 { 0x2027 } else { v };
                    s.push_str(&format!("{v:04x}"));
                }
            }
            8 => {
                s.push_str("\\U");
                s.push_str(*r.pick(&DQ_BIGU));
            }
            _ => s.push_str(*r.pick(&DQ_LIT)),
        }
    }
    s
}

/// scalars whose *JSON* rendering must not depend on the route: every double-quoted escape,
/// single-quoted with `''` and literal backslashes, plain scalars with quote / backslash inside
fn y_scalar_rich(r: &mut Rng) -> String {
    match r.below(10) {
        0..=5 => format!("\"{}\"", y_dq_body(r)),
        6 | 7 => format!(
            "'{}'",
            r.pick(&["it''s", "''", "a ''b'' c", "back\\slash \\x22 \\n", "say \"hi\"", "/", "", " lead", "#no comment", "a: b"])
        ),
        8 => r.pick(&["a\\b", "a\"b", "it's", "C:\\Temp", "x/y", "a\\x22b", "q\"", "back\\"]).to_string(),
        _ => y_scalar(r),
    }
}

fn y_block(r: &mut Rng) -> Y {
    let header = *r.pick(&["|", ">", "|-", ">-", "|+", ">+"]);
    let n = r.range(1, 3);
    let lines = (0..n)
        .map(|_| r.pick(&["say \"hi\"", "C:\\Temp\\x", "plain text", "tab\\there \\x22", "a/b 'c'", "# not a comment", "k: v"]).to_string())
        .collect();
    Y::Block(header.to_string(), lines)
}

thread_local! {
    /// rich mode: scalars / keys from the escape alphabet, block scalars (JSON-output requests)
    static RICH: std::cell::Cell<bool> = const { std::cell::Cell::new(false) };
}

fn scalar(r: &mut Rng) -> String {
    if RICH.with(|c| c.get()) && r.chance(2, 3) {
        y_scalar_rich(r)
    } else {
        y_scalar(r)
    }
}

/// a mapping key: plain, or (rich mode) double-quoted from the escape alphabet, kept unique by `i`
fn key(r: &mut Rng, plain: &str, i: usize) -> String {
    if RICH.with(|c| c.get()) && r.chance(1, 3) {
        format!("\"k{i}{}\"", y_dq_body(r))
    } else {
        plain.to_string()
    }
}

fn flow_ok(s: &str) -> bool {
    s.starts_with('"') || s.starts_with('\'') || !(s.contains(',') || s.contains(": ") || s.contains(['[', ']', '{', '}', '#']))
}

fn y_gen(r: &mut Rng, depth: u32) -> Y {
    let rich = RICH.with(|c| c.get());
    let pick = if depth == 0 { r.below(4) } else { r.below(10) };
    match pick {
        0..=2 => {
            if rich && r.chance(1, 8) {
                y_block(r)
            } else {
                Y::Scalar(scalar(r))
            }
        }
        3 => {
            if r.chance(1, 2) {
                Y::FlowSeq((0..r.below(4)).map(|_| scalar(r)).filter(|s| flow_ok(s)).collect())
            } else {
                let n = r.below(3) as usize;
                let mut ks: Vec<&str> = YKEYS.to_vec();
                let mut fs = Vec::new();
                for i in 0..n {
                    let k = ks.remove(r.usize_below(ks.len()));
                    let v = scalar(r);
                    if flow_ok(&v) {
                        fs.push((key(r, k, i), v));
                    }
                }
                Y::FlowMap(fs)
            }
        }
        4..=6 => {
            let n = r.range(1, 4) as usize;
            let mut ks: Vec<&str> = YKEYS.to_vec();
            let mut fs = Vec::new();
            for i in 0..n {
                let k = ks.remove(r.usize_below(ks.len()));
                fs.push((key(r, k, i), y_gen(r, depth - 1)));
            }
            Y::Map(fs)
        }
        _ => Y::Seq((0..r.range(1, 4)).map(|_| y_gen(r, depth - 1)).collect()),
    }
}

fn flow_text(v: &Y) -> Option<String> {
    match v {
        Y::Scalar(s) => Some(s.clone()),
        Y::FlowSeq(xs) => Some(format!("[{}]", xs.join(", "))),
        Y::FlowMap(fs) => Some(format!("{{{}}}", fs.iter().map(|(k, v)| format!("{k}: {v}")).collect::<Vec<_>>().join(", "))),
        _ => None,
    }
}

fn block_text(x: &Y, ind: usize) -> Option<String> {
    match x {
        Y::Block(h, lines) => {
            let pad = " ".repeat(ind);
            Some(format!("{h}\n{}", lines.iter().map(|l| format!("{pad}{l}\n")).collect::<String>()))
        }
        _ => None,
    }
}

fn y_write(v: &Y, ind: usize, out: &mut String) {
    let pad = " ".repeat(ind);
    match v {
        Y::Block(..) => out.push_str(&format!("{pad}- {}", block_text(v, ind + 2).unwrap())),
        Y::Map(fs) => {
            for (k, x) in fs {
                if let Some(b) = block_text(x, ind + 2) {
                    out.push_str(&format!("{pad}{k}: {b}"));
                    continue;
                }
                match flow_text(x) {
                    Some(t) => out.push_str(&format!("{pad}{k}: {t}\n")),
                    None => {
                        out.push_str(&format!("{pad}{k}:\n"));
                        y_write(x, ind + 2, out);
                    }
                }
            }
        }
        Y::Seq(xs) => {
            for x in xs {
                if let Some(b) = block_text(x, ind + 2) {
                    out.push_str(&format!("{pad}- {b}"));
                    continue;
                }
                match flow_text(x) {
                    Some(t) => out.push_str(&format!("{pad}- {t}\n")),
                    None => {
                        // nested block collection: first line shares the dash
                        let mut inner = String::new();
                        y_write(x, ind + 2, &mut inner);
                        let trimmed = &inner[(ind + 2).min(inner.len())..];
                        out.push_str(&format!("{pad}- {trimmed}"));
                    }
                }
            }
        }
        other => out.push_str(&format!("{pad}{}\n", flow_text(other).unwrap())),
    }
}

fn y_doc(r: &mut Rng) -> (Y, Vec<u8>) {
    let d = *r.pick(&[1u32, 2, 2, 3, 4]);
    let v = if r.chance(1, 12) { y_gen(r, 0) } else if r.chance(1, 2) { Y::Map(match y_gen_map(r, d) { Y::Map(f) => f, _ => vec![] }) } else { y_gen(r, d) };
    // a block scalar is only generated inside a collection (documents are joined with `---`)
    let v = if matches!(v, Y::Block(..)) { Y::Seq(vec![v]) } else { v };
    let mut s = String::new();
    y_write(&v, 0, &mut s);
    (v, s.into_bytes())
}

fn y_gen_map(r: &mut Rng, depth: u32) -> Y {
    let n = r.range(1, 5) as usize;
    let mut ks: Vec<&str> = YKEYS.to_vec();
    let mut fs = Vec::new();
    for i in 0..n {
        let k = ks.remove(r.usize_below(ks.len()));
        fs.push((key(r, k, i), y_gen(r, depth.saturating_sub(1))));
    }
    Y::Map(fs)
}

/// document for JSON-output requests: scalars and keys from the full escape alphabet
fn y_doc_rich(r: &mut Rng) -> (Y, Vec<u8>) {
    RICH.with(|c| c.set(true));
    let d = y_doc(r);
    RICH.with(|c| c.set(false));
    d
}

// ------------------------------------------------------------------ navigation programs

/// a navigation program: pipeline of steps; biased to the shapes the documents have
pub fn gen_prog(r: &mut Rng) -> String {
    let step = |r: &mut Rng| -> String {
        match r.below(16) {
            0..=3 => format!(".{}", r.pick(&["a", "b", "c", "key", "zz"])),
            4 => format!(".{}.{}", r.pick(&["a", "b"]), r.pick(&["a", "b", "c"])),
            5 => format!(".[{}]", r.pick(&["0", "1", "-1", "2", "7"])),
            6 | 7 => ".[]".into(),
            8 => format!(".{}[]", r.pick(&["a", "b"])),
            9 => format!(".[{}]", r.pick(&["1:3", ":2", "1:", "-2:", "0:0"])),
            10 => (*r.pick(&["first(.[])", "last(.[])", "first", "last"])).into(),
            11 => format!(".{}?", r.pick(&["a", "b", "zz"])),
            12 => (*r.pick(&[".[]?", ".[0]?", ".a[]?"])).into(),
            13 => format!(".[\"{}\"]", r.pick(&["a", "b"])),
            14 => format!("(.{})", r.pick(&["a", "b"])),
            _ => ".".into(),
        }
    };
    let n = *r.pick(&[1usize, 1, 1, 2, 2, 3]);
    if r.chance(1, 6) {
        return ".".into();
    }
    (0..n).map(|_| step(r)).collect::<Vec<_>>().join(" | ")
}

/// shape of a document, for choosing programs that navigate it
pub enum Sh {
    Map(Vec<(String, Sh)>),
    Seq(Vec<Sh>),
    Leaf,
}

fn sh_of_y(v: &Y) -> Sh {
    match v {
        Y::Map(fs) => Sh::Map(
            fs.iter().filter(|(k, _)| k.chars().all(|c| c.is_ascii_lowercase())).map(|(k, x)| (k.clone(), sh_of_y(x))).collect(),
        ),
        Y::Seq(xs) => Sh::Seq(xs.iter().map(sh_of_y).collect()),
        Y::FlowSeq(xs) => Sh::Seq(xs.iter().map(|_| Sh::Leaf).collect()),
        Y::FlowMap(fs) => Sh::Map(
            fs.iter().filter(|(k, _)| k.chars().all(|c| c.is_ascii_lowercase())).map(|(k, _)| (k.clone(), Sh::Leaf)).collect(),
        ),
        Y::Scalar(_) | Y::Block(..) => Sh::Leaf,
    }
}

fn sh_of_g(v: &G) -> Sh {
    match v {
        G::Obj(fs) => Sh::Map(
            fs.iter()
                .filter(|(k, _)| !k.chars.is_empty() && k.chars.iter().all(|c| c.is_ascii_lowercase()))
                .map(|(k, x)| (k.chars.iter().collect(), sh_of_g(x)))
                .collect(),
        ),
        G::Arr(xs) => Sh::Seq(xs.iter().map(sh_of_g).collect()),
        _ => Sh::Leaf,
    }
}

/// a navigation pipeline that mostly follows the document's shape
pub fn prog_for(r: &mut Rng, sh: &Sh) -> String {
    let mut steps: Vec<String> = Vec::new();
    let mut cur = sh;
    let mut many = false;
    for _ in 0..r.range(1, 4) {
        if r.chance(1, 8) {
            steps.push(gen_prog(r));
            break;
        }
        match cur {
            Sh::Map(fs) if !fs.is_empty() => {
                let (k, x) = r.pick(fs);
                match r.below(6) {
                    0 => {
                        steps.push(".[]".into());
                        many = true;
                        cur = x;
                    }
                    1 => {
                        steps.push(format!(".{k}?"));
                        cur = x;
                    }
                    2 => {
                        steps.push(format!(".[\"{k}\"]"));
                        cur = x;
                    }
                    _ => {
                        steps.push(format!(".{k}"));
                        cur = x;
                    }
                }
            }
            Sh::Seq(xs) if !xs.is_empty() => {
                let i = r.usize_below(xs.len());
                match r.below(9) {
                    0 | 1 => {
                        steps.push(".[]".into());
                        many = true;
                        cur = &xs[i];
                    }
                    2 => {
                        steps.push(format!(".[{}:{}]", i, r.range(i as u64, xs.len() as u64 + 1)));
                        break;
                    }
                    3 => {
                        steps.push("first(.[])".into());
                        cur = &xs[0];
                    }
                    4 => {
                        steps.push("last(.[])".into());
                        cur = &xs[xs.len() - 1];
                    }
                    5 => {
                        steps.push((*r.pick(&["first", "last", ".[-1]", ".[]?"])).into());
                        break;
                    }
                    _ => {
                        steps.push(format!(".[{i}]"));
                        cur = &xs[i];
                    }
                }
            }
            _ => break,
        }
        if many && r.chance(1, 2) {
            break;
        }
    }
    if steps.is_empty() {
        ".".into()
    } else {
        steps.join(" | ")
    }
}

fn req(tool: &str, cls: &str, flags: &str, prog: &str, docs: &[Vec<u8>]) -> String {
    format!(
        "C27 {tool} {cls} {} {} {}",
        if flags.is_empty() { "-" } else { flags },
        hex_bytes(prog.as_bytes()),
        docs.iter().map(|d| hex_bytes(d)).collect::<Vec<_>>().join(",")
    )
}

fn json_doc(r: &mut Rng, allow_del: bool, canonical_numbers: bool) -> Vec<u8> {
    json_doc_g(r, allow_del, canonical_numbers).1
}

fn json_doc_g(r: &mut Rng, allow_del: bool, canonical_numbers: bool) -> (G, Vec<u8>) {
    loop {
        let depth = *r.pick(&[1u32, 2, 3, 4]);
        let mut budget = *r.pick(&[6i64, 20, 60]);
        let kind = if r.chance(1, 8) { 0 } else { r.range(1, 2) as u32 };
        let mut g = gen_g(r, depth, &mut budget, kind);
        if canonical_numbers {
            canon_nums(&mut g, r);
        }
        let mut text = Vec::new();
        let ws = r.chance(1, 2);
        write_g(&g, r, ws, &mut text);
        if allow_del || !text.contains(&0x7f) {
            return (g, text);
        }
    }
}

fn canon_nums(g: &mut G, r: &mut Rng) {
    match g {
        G::Num(s) => *s = format!("{}", r.below(100000) as i64 - 500),
        G::Arr(xs) => xs.iter_mut().for_each(|x| canon_nums(x, r)),
        G::Obj(fs) => fs.iter_mut().for_each(|(_, x)| canon_nums(x, r)),
        _ => {}
    }
}

pub fn gen(tier: Tier, r: &mut Rng, emit: &mut dyn FnMut(String)) {
    // every request costs 2–3 CLI processes: the quick tier stays below ~80 processes
    let (n_jq, n_yj, n_yy, n_cls) = if tier == Tier::Quick { (9, 10, 12, 1) } else { (500, 600, 900, 40) };
    // ---- jq, core: every layout (incl. `--indent 0`, raw DEL in strings — both repaired findings);
    // no --preserve-input (own class below)
    const JQ_FLAGS: [&str; 16] =
        ["", "c", "i0", "i1", "i3", "i7", "tab", "tab,c", "c,i3", "r", "i0,r", "z", "S", "c,a", "i2", "c,r"];
    for n in 0..n_jq {
        let flags = if n < 16 { JQ_FLAGS[(n * 7) % 16] } else { *r.pick(&JQ_FLAGS) };
        let mut gd: Vec<(G, Vec<u8>)> = (0..r.range(6, 12)).map(|_| json_doc_g(r, true, false)).collect();
        // one document of every batch carries a raw DEL in a backslash-free string and key
        gd[0].1 = [b"[\"\x7f\",{\"k\x7f\":".to_vec(), gd[0].1.clone(), b"}]".to_vec()].concat();
        let prog = if n % 3 == 0 { ".".to_string() } else { prog_for(r, &sh_of_g(&gd[1].0)) };
        let docs: Vec<Vec<u8>> = gd.into_iter().map(|x| x.1).collect();
        emit(req("jq", "core", flags, &prog, &docs));
    }
    // ---- jq -c --preserve-input: identity fast path vs the neutral spelling `(.)|.` (recorded finding)
    for _ in 0..n_cls {
        let docs: Vec<Vec<u8>> = (0..4).map(|_| json_doc(r, false, false)).collect();
        emit(req("jq", "preserve", "c,P", ".", &docs));
    }
    // ---- yq, JSON output: several documents per process (multi-document stream)
    const YQ_J: [&str; 7] = ["oj", "oj,I0", "oj,I3", "oj,tab", "oj,S", "oj,I7", "oj,I1"];
    for n in 0..n_yj {
        let flags = if n < 7 { YQ_J[n] } else { *r.pick(&YQ_J) };
        let yd: Vec<(Y, Vec<u8>)> = (0..r.range(6, 12)).map(|_| y_doc_rich(r)).collect();
        // identity / iteration every other request: the whole document goes through the printers
        let prog = match n % 4 {
            0 => ".".to_string(),
            2 => ".[]".to_string(),
            _ => prog_for(r, &sh_of_y(&yd[0].0)),
        };
        let docs: Vec<Vec<u8>> = yd.into_iter().map(|x| x.1).collect();
        emit(req("yq", "core", flags, &prog, &docs));
    }
    // ---- yq, YAML output: one document per process (document separators are a separate class)
    const YQ_Y: [&str; 6] = ["", "I4", "S", "I3", "r", "I6"];
    for n in 0..n_yy {
        let flags = if n < 6 { YQ_Y[n] } else { *r.pick(&YQ_Y) };
        let (y, text) = y_doc(r);
        let prog = if n % 4 == 0 { ".".to_string() } else { prog_for(r, &sh_of_y(&y)) };
        // -S over a flow mapping with several keys is its own class (known finding C27-yq-sortflow)
        let cls = if flags.contains('S') && has_wide_flow_map(&y) { "sortflow" } else { "core" };
        emit(req("yq", cls, flags, &prog, &[text]));
    }
    // ---- yq, one injected feature each (class predicates of the recorded findings)
    for _ in 0..n_cls {
        let base = String::from_utf8(y_doc(r).1).unwrap();
        // non-canonical scalar presentations, YAML output
        let styled = format!("s1: ~\ns2: 0x1F\ns3: 010\ns4: -0\ns5: |\n  lit\n  block\ns6: >\n  folded\n  text\ns7: {{u: http://x/y}}\nrest:\n{}", indent2(&base));
        emit(req("yq", "style", "", ".", &[styled.into_bytes()]));
        // duplicate mapping keys
        let dup = format!("a: 1\nb: 2\na: 3\nrest:\n{}", indent2(&base));
        emit(req("yq", "dupkeys", *r.pick(&["", "oj"]), ".", &[dup.into_bytes()]));
        emit(req("yq", "sortflow", "S", ".", &[b"k: {e: 1, d: 2}\n".to_vec()]));
        // several documents, YAML output
        emit(req("yq", "multidoc", "", ".", &[y_doc(r).1, y_doc(r).1]));
        // -r with JSON output on a string result
        emit(req("yq", "rawjson", "oj,r", ".s", &[b"s: \"s t\"\n".to_vec()]));
        // U+2028 / U+2029 in a double-quoted scalar, JSON output
        emit(req("yq", "lsps", "oj", ".", &[b"s: \"line\\Lsep \\P \\u2028 \\u2029\"\n".to_vec()]));
        // a \u escape in the surrogate range (ill-formed input), JSON output
        let su = format!("s: \"a\\u{}b\"\nt: 1\n", r.pick(&["d800", "dbff", "dc00", "dfff"]));
        emit(req("yq", "surrogate", "oj,I0", ".", &[su.into_bytes()]));
        // JSON input
        let jd = json_doc(r, false, false);
        emit(req("yq", "jsonin", *r.pick(&["pj", "pj,oj"]), ".", &[jd]));
    }
}

fn has_wide_flow_map(v: &Y) -> bool {
    match v {
        Y::FlowMap(fs) => fs.len() >= 2,
        Y::Map(fs) => fs.iter().any(|(_, x)| has_wide_flow_map(x)),
        Y::Seq(xs) => xs.iter().any(has_wide_flow_map),
        _ => false,
    }
}

fn indent2(s: &str) -> String {
    s.lines().map(|l| format!("  {l}\n")).collect()
}
