//! Line-protocol helpers shared by all property modules.
use std::fmt::Write;

pub fn hex_words(ws: &[u64]) -> String {
    if ws.is_empty() {
        return "-".to_string();
    }
    let mut s = String::with_capacity(ws.len() * 17);
    for (i, w) in ws.iter().enumerate() {
        if i > 0 {
            s.push(',');
        }
        let _ = write!(s, "{w:x}");
    }
    s
}

pub fn parse_words(s: &str) -> Vec<u64> {
    if s == "-" {
        return Vec::new();
    }
    s.split(',').map(|t| u64::from_str_radix(t, 16).expect("hex word")).collect()
}

pub fn hex_bytes(bs: &[u8]) -> String {
    if bs.is_empty() {
        return "-".to_string();
    }
    let mut s = String::with_capacity(bs.len() * 2);
    for b in bs {
        let _ = write!(s, "{b:02x}");
    }
    s
}

pub fn parse_bytes(s: &str) -> Vec<u8> {
    if s == "-" {
        return Vec::new();
    }
    (0..s.len() / 2).map(|i| u8::from_str_radix(&s[2 * i..2 * i + 2], 16).expect("hex byte")).collect()
}

pub fn opt<T: std::fmt::Display>(o: Option<T>) -> String {
    match o {
        Some(v) => v.to_string(),
        None => "-".to_string(),
    }
}

pub fn num(s: &str) -> usize {
    s.parse::<usize>().expect("decimal usize")
}

pub fn num64(s: &str) -> u64 {
    s.parse::<u64>().expect("decimal u64")
}

pub fn list<T: std::fmt::Display>(xs: &[T]) -> String {
    if xs.is_empty() {
        return "-".to_string();
    }
    xs.iter().map(|x| x.to_string()).collect::<Vec<_>>().join(",")
}
