//! C31 — binary serialization (`succinctly::binary`) at every slice alignment, and indexes rebuilt
//! from serialized parts (`JsonIndex::from_parts`, `BalancedParens::from_words`,
//! `BitVec::from_words`, `SemiIndex::from_bytes`).
//!
//!   w2b <words>          words_to_bytes, then back through all three readers (aligned)
//!                        -> <bytes>|<bytes_to_words>|<bytes_to_words_vec>|<try_bytes_to_words>
//!   conv <off> <bytes>   the two BORROWED readers on the byte string placed `off` (0..15) bytes past a
//!                        16-aligned address (each call caught on its own)
//!                        -> <bytes_to_words>|<try_bytes_to_words>     each: hex words | `none` | `PANIC`
//!   vec <off> <bytes>    the COPYING reader bytes_to_words_vec at the same placements -> hex words | PANIC
//!   semi <o1> <o2> <ib bytes> <bp bytes>
//!                        SemiIndex::from_bytes of json::standard and json::simple, IB placed at offset o1
//!                        and BP at offset o2  -> <ib>;<bp>|<ib>;<bp>   (or PANIC per index kind)
//!   json <off> <text>    JsonIndex::build vs from_parts fed (a) by bytes_to_words_vec and (b) by
//!                        SemiIndex::from_bytes, both reading the serialized IB/BP placed at offset `off`,
//!                        vs from_parts(borrowed &[u64]) / try_ form on an aligned reload
//!   bp <off> <words> <len>   BalancedParens::new vs from_words (owned, reloaded at offset `off` / borrowed aligned)
//!   bv <off> <words> <len>   BitVec::from_words vs the same on words reloaded at offset `off`
//!                        -> `EQ n=<queries> d=<digest>` when every structure answers the whole
//!                           query battery identically, else `DIFF …`  (implementation vs
//!                           implementation; the model side answers `EQ`)
//! "Offset" is always realised inside an explicitly 16-aligned backing buffer, so `off % 8` is the
//! address misalignment the model's `a : Fin 8` stands for, and 8 vs 16-alignment are both covered.
use crate::rng::Rng;
use crate::util::*;
use crate::Tier;
use std::panic::{catch_unwind, AssertUnwindSafe};
use succinctly::binary;
use succinctly::json::JsonIndex;
use succinctly::trees::BalancedParens;
use succinctly::{BitVec, RankSelect};

pub fn tables() -> Vec<(&'static str, String)> {
    vec![]
}

/// A byte string placed exactly `off` bytes past a 16-aligned address (explicitly aligned backing
/// buffer: the base is located inside an over-allocated `Vec<u8>`, nothing is left to the allocator).
struct Aligned {
    raw: Vec<u8>,
    start: usize,
    len: usize,
}

impl Aligned {
    fn new(off: usize, bytes: &[u8]) -> Self {
        let mut raw = vec![0xA5u8; bytes.len() + off + 48];
        let base = (16 - (raw.as_ptr() as usize % 16)) % 16;
        let start = base + off;
        raw[start..start + bytes.len()].copy_from_slice(bytes);
        Aligned { raw, start, len: bytes.len() }
    }
    fn slice(&self) -> &[u8] {
        let s = &self.raw[self.start..self.start + self.len];
        debug_assert!(true);
        s
    }
    /// address of the slice modulo 16 (checked by the callers that depend on it)
    fn addr_mod16(&self) -> usize {
        self.slice().as_ptr() as usize % 16
    }
}

fn caught<T>(f: impl FnOnce() -> T, show: impl FnOnce(T) -> String) -> String {
    match catch_unwind(AssertUnwindSafe(f)) {
        Ok(v) => show(v),
        Err(_) => "PANIC".to_string(),
    }
}

fn show_words(w: Vec<u64>) -> String {
    hex_words(&w)
}

fn vec_reader(s: &[u8]) -> String {
    caught(|| binary::bytes_to_words_vec(s), show_words)
}

fn borrowed_readers(s: &[u8]) -> String {
    format!(
        "{}|{}",
        caught(|| binary::bytes_to_words(s).to_vec(), show_words),
        caught(
            || binary::try_bytes_to_words(s).map(|w| w.to_vec()),
            |o| match o {
                Some(w) => hex_words(&w),
                None => "none".to_string(),
            }
        ),
    )
}

struct Digest {
    h: u64,
    n: u64,
}

impl Digest {
    fn new() -> Self {
        Digest { h: 0xcbf2_9ce4_8422_2325, n: 0 }
    }
    fn put(&mut self, v: u64) {
        for b in v.to_le_bytes() {
            self.h = (self.h ^ b as u64).wrapping_mul(0x100_0000_01b3);
        }
        self.n += 1;
    }
    fn opt(&mut self, o: Option<usize>) {
        match o {
            Some(v) => self.put(v as u64 + 1),
            None => self.put(0),
        }
    }
}

/// Positions to probe in `0..=n`: all of them when small, otherwise a stride plus both ends.
fn probes(n: usize) -> Vec<usize> {
    if n <= 1500 {
        (0..=n + 2).collect()
    } else {
        let mut v: Vec<usize> = (0..=n + 2).step_by(n / 1000 + 1).collect();
        v.extend([n - 1, n, n + 1, 63, 64, 65, 511, 512, 513]);
        v
    }
}

fn bp_battery<W: AsRef<[u64]>>(bp: &BalancedParens<W>, d: &mut Digest) {
    d.put(bp.len() as u64);
    d.put(bp.total_ones() as u64);
    for &w in bp.words() {
        d.put(w);
    }
    for p in probes(bp.len()) {
        d.put(bp.rank1(p) as u64);
        d.put(bp.rank0(p) as u64);
        d.put(bp.is_open(p) as u64);
        if p < bp.len() {
            d.put(bp.excess(p) as i64 as u64);
            d.opt(bp.find_close(p));
            d.opt(bp.find_open(p));
            d.opt(bp.enclose(p));
            d.opt(bp.first_child(p));
            d.opt(bp.next_sibling(p));
            d.opt(bp.parent(p));
        }
    }
}

fn json_battery<W: AsRef<[u64]>>(ix: &JsonIndex<W>, text: &[u8], d: &mut Digest) {
    d.put(ix.ib_len() as u64);
    for &w in ix.ib() {
        d.put(w);
    }
    let ones: usize = ix.ib().iter().map(|w| w.count_ones() as usize).sum();
    for p in probes(ix.ib_len()) {
        d.put(ix.ib_rank1(p) as u64);
    }
    for k in probes(ones) {
        d.opt(ix.ib_select1(k));
    }
    bp_battery(ix.bp(), d);
    // cursor walk (document order), bounded
    let mut stack = vec![ix.root(text)];
    let mut visited = 0;
    while let Some(c) = stack.pop() {
        visited += 1;
        if visited > 4000 {
            break;
        }
        d.put(c.bp_position() as u64);
        d.opt(c.text_position());
        match c.text_range() {
            Some((a, b)) => {
                d.put(a as u64);
                d.put(b as u64);
            }
            None => d.put(u64::MAX),
        }
        d.put(c.is_container() as u64);
        let (l, col) = ix.to_line_column(c.text_position().unwrap_or(0), text);
        d.put(l as u64);
        d.put(col as u64);
        if let Some(s) = c.next_sibling() {
            stack.push(s);
        }
        if let Some(f) = c.first_child() {
            stack.push(f);
        }
    }
}

fn digest_of(f: impl FnOnce(&mut Digest)) -> String {
    caught(
        || {
            let mut d = Digest::new();
            f(&mut d);
            d
        },
        |d| format!("{}:{:016x}", d.n, d.h),
    )
}

fn verdict(ds: &[(&str, String)]) -> String {
    if ds.iter().all(|(_, d)| *d == ds[0].1) {
        let (n, h) = ds[0].1.split_once(':').unwrap_or((ds[0].1.as_str(), ""));
        format!("EQ n={n} d={h}")
    } else {
        format!("DIFF {}", ds.iter().map(|(k, d)| format!("{k}={d}")).collect::<Vec<_>>().join(" "))
    }
}

/// Serialize words to a byte string and load that byte string into a fresh 8-aligned buffer
/// (what writing a file and mapping it back does).
fn reload(off: usize, words: &[u64]) -> Aligned {
    let a = Aligned::new(off, binary::words_to_bytes(words));
    assert_eq!(a.addr_mod16(), off % 16, "placement");
    a
}

pub fn exec(a: &[&str]) -> String {
    match a[0] {
        "w2b" => {
            let ws = parse_words(a[1]);
            let bytes = binary::words_to_bytes(&ws);
            let (b, t) = {
                let r = borrowed_readers(bytes);
                let (b, t) = r.split_once('|').unwrap();
                (b.to_string(), t.to_string())
            };
            format!("{}|{}|{}|{}", hex_bytes(bytes), b, vec_reader(bytes), t)
        }
        "conv" | "vec" => {
            let off = num(a[1]);
            let bytes = parse_bytes(a[2]);
            let buf = Aligned::new(off, &bytes);
            if buf.addr_mod16() != off % 16 {
                return "BAD-PLACEMENT".into();
            }
            if a[0] == "conv" {
                borrowed_readers(buf.slice())
            } else {
                vec_reader(buf.slice())
            }
        }
        "semi" => {
            let (o1, o2) = (num(a[1]), num(a[2]));
            let ib = Aligned::new(o1, &parse_bytes(a[3]));
            let bp = Aligned::new(o2, &parse_bytes(a[4]));
            if ib.addr_mod16() != o1 % 16 || bp.addr_mod16() != o2 % 16 {
                return "BAD-PLACEMENT".into();
            }
            let show = |ib: Vec<u64>, bp: Vec<u64>| format!("{};{}", hex_words(&ib), hex_words(&bp));
            format!(
                "{}|{}",
                caught(
                    || succinctly::json::standard::SemiIndex::from_bytes(ib.slice(), bp.slice()),
                    |x| show(x.ib, x.bp)
                ),
                caught(
                    || succinctly::json::simple::SemiIndex::from_bytes(ib.slice(), bp.slice()),
                    |x| show(x.ib, x.bp)
                ),
            )
        }
        "json" => {
            let off = num(a[1]);
            let text = parse_bytes(a[2]);
            let Ok(orig) = catch_unwind(|| JsonIndex::build(&text)) else { return "BUILD-PANIC".into() };
            let (ib_len, bp_len) = (orig.ib_len(), orig.bp().len());
            // serialized parts placed at the requested offset (owned readers) and aligned (borrowed readers)
            let ib_o = reload(off, orig.ib());
            let bp_o = reload((off + 4) % 16, orig.bp().words());
            let ib = reload(0, orig.ib());
            let bp = reload(0, orig.bp().words());
            let d0 = digest_of(|d| json_battery(&orig, &text, d));
            let d1 = digest_of(|d| {
                let owned = JsonIndex::from_parts(
                    binary::bytes_to_words_vec(ib_o.slice()),
                    ib_len,
                    binary::bytes_to_words_vec(bp_o.slice()),
                    bp_len,
                );
                json_battery(&owned, &text, d)
            });
            let d1b = digest_of(|d| {
                // through SemiIndex::from_bytes (json::standard), then from_parts
                let semi = succinctly::json::standard::SemiIndex::from_bytes(ib_o.slice(), bp_o.slice());
                let owned = JsonIndex::from_parts(semi.ib, ib_len, semi.bp, bp_len);
                json_battery(&owned, &text, d)
            });
            let d2 = digest_of(|d| {
                let borrowed: JsonIndex<&[u64]> =
                    JsonIndex::from_parts(binary::bytes_to_words(ib.slice()), ib_len, binary::bytes_to_words(bp.slice()), bp_len);
                json_battery(&borrowed, &text, d)
            });
            let d3 = digest_of(|d| {
                let ibw = binary::try_bytes_to_words(ib.slice()).expect("multiple of 8");
                let bpw = binary::try_bytes_to_words(bp.slice()).expect("multiple of 8");
                let borrowed: JsonIndex<&[u64]> = JsonIndex::from_parts(ibw, ib_len, bpw, bp_len);
                json_battery(&borrowed, &text, d)
            });
            // SemiIndex::{ib,bp}_as_bytes / from_bytes of both index kinds, at the offset
            let semi_ok = caught(
                || {
                    let semi = succinctly::json::standard::build_semi_index(&text);
                    let ib2 = Aligned::new(off, semi.ib_as_bytes());
                    let bp2 = Aligned::new((off + 4) % 16, semi.bp_as_bytes());
                    let back = succinctly::json::standard::SemiIndex::from_bytes(ib2.slice(), bp2.slice());
                    let simple = succinctly::json::simple::build_semi_index(&text);
                    let ib3 = Aligned::new(off, simple.ib_as_bytes());
                    let bp3 = Aligned::new((off + 4) % 16, simple.bp_as_bytes());
                    let back3 = succinctly::json::simple::SemiIndex::from_bytes(ib3.slice(), bp3.slice());
                    back.ib == semi.ib && back.bp == semi.bp && back3.ib == simple.ib && back3.bp == simple.bp
                },
                |b| b.to_string(),
            );
            if semi_ok != "true" {
                return format!("DIFF semi-index from_bytes at offset {off}: {semi_ok}");
            }
            verdict(&[("orig", d0), ("owned", d1), ("owned-via-semi", d1b), ("borrowed", d2), ("try", d3)])
        }
        "bp" => {
            let off = num(a[1]);
            let ws = parse_words(a[2]);
            let len = num(a[3]);
            let Ok(orig) = catch_unwind(|| BalancedParens::new(ws.clone(), len)) else { return "BUILD-PANIC".into() };
            let ser_o = reload(off, orig.words());
            let ser = reload(0, orig.words());
            let d0 = digest_of(|d| bp_battery(&orig, d));
            let d1 = digest_of(|d| bp_battery(&BalancedParens::from_words(binary::bytes_to_words_vec(ser_o.slice()), len), d));
            let d2 = digest_of(|d| {
                let b: BalancedParens<&[u64]> = BalancedParens::from_words(binary::bytes_to_words(ser.slice()), len);
                bp_battery(&b, d)
            });
            verdict(&[("orig", d0), ("owned", d1), ("borrowed", d2)])
        }
        "bv" => {
            let off = num(a[1]);
            let ws = parse_words(a[2]);
            let len = num(a[3]);
            let Ok(orig) = catch_unwind(|| BitVec::from_words(ws.clone(), len)) else { return "BUILD-PANIC".into() };
            let ser = reload(off, orig.words());
            let battery = |b: &BitVec, d: &mut Digest| {
                d.put(b.len() as u64);
                d.put(b.count_ones() as u64);
                d.put(b.count_zeros() as u64);
                for &w in b.words() {
                    d.put(w);
                }
                for p in probes(b.len()) {
                    if p <= b.len() {
                        d.put(b.rank1(p) as u64);
                        d.put(b.rank0(p) as u64);
                    }
                    if p < b.len() {
                        d.put(b.get(p) as u64);
                    }
                    d.opt(b.select1(p));
                    d.opt(b.select0(p));
                }
            };
            let d0 = digest_of(|d| battery(&orig, d));
            let d1 = digest_of(|d| battery(&BitVec::from_words(binary::bytes_to_words_vec(ser.slice()), len), d));
            verdict(&[("orig", d0), ("reloaded", d1)])
        }
        _ => "BAD-OP".into(),
    }
}

// ---------------------------------------------------------------------------------------------
// generators

fn gen_word(r: &mut Rng) -> u64 {
    match r.below(6) {
        0 => *r.pick(&[0u64, u64::MAX, 1, 1 << 63, 0x0123_4567_89AB_CDEF, 0xFF, 0xFF00_0000_0000_0000, 0x8000_0000_0000_0001]),
        1 => r.sparse_word(3),
        2 => !r.sparse_word(3),
        3 => (r.byte() as u64) << (8 * r.below(8)),
        _ => r.next_u64(),
    }
}

fn gen_json(r: &mut Rng, depth: u32, out: &mut Vec<u8>) {
    let ws = |r: &mut Rng, out: &mut Vec<u8>| {
        for _ in 0..r.below(3) {
            out.push(*r.pick(&[b' ', b'\n', b'\t', b'\r']));
        }
    };
    // top level: mostly containers (scalars exercise almost nothing of the index)
    let kind = if depth >= 5 { r.below(5) } else if depth == 0 && r.chance(4, 5) { 5 + r.below(3) } else { r.below(8) };
    match kind {
        0 => out.extend_from_slice(*r.pick(&[&b"null"[..], b"true", b"false"])),
        1 | 2 => {
            let nums: [&[u8]; 8] = [b"0", b"-1", b"12345", b"3.25", b"1e9", b"-0.5E-3", b"18446744073709551616", b"7"];
            out.extend_from_slice(*r.pick(&nums));
        }
        3 | 4 => gen_str(r, out),
        5 | 6 => {
            out.push(b'[');
            ws(r, out);
            let n = r.below(6);
            for i in 0..n {
                if i > 0 {
                    out.push(b',');
                    ws(r, out);
                }
                gen_json(r, depth + 1, out);
                ws(r, out);
            }
            out.push(b']');
        }
        _ => {
            out.push(b'{');
            ws(r, out);
            let n = r.below(6);
            for i in 0..n {
                if i > 0 {
                    out.push(b',');
                    ws(r, out);
                }
                gen_str(r, out);
                ws(r, out);
                out.push(b':');
                ws(r, out);
                gen_json(r, depth + 1, out);
                ws(r, out);
            }
            out.push(b'}');
        }
    }
}

fn gen_str(r: &mut Rng, out: &mut Vec<u8>) {
    out.push(b'"');
    for _ in 0..r.below(12) {
        match r.below(12) {
            0 => out.extend_from_slice(b"\\\""),
            1 => out.extend_from_slice(b"\\\\"),
            2 => out.extend_from_slice(b"\\u00e9"),
            3 => out.extend_from_slice("é".as_bytes()),
            4 => out.extend_from_slice(*r.pick(&[&b"{"[..], b"}", b"[", b"]", b",", b":"])),
            _ => out.push(b'a' + r.below(26) as u8),
        }
    }
    out.push(b'"');
}

/// A balanced parenthesis sequence of `pairs` pairs as bits (1 = open), LSB first.
fn gen_balanced(r: &mut Rng, pairs: usize) -> (Vec<u64>, usize) {
    let len = pairs * 2;
    let mut ws = vec![0u64; len.div_ceil(64)];
    let (mut open, mut close) = (0usize, 0usize);
    let deep = r.chance(1, 3);
    for i in 0..len {
        let can_open = open < pairs;
        let can_close = close < open;
        let o = if !can_close {
            true
        } else if !can_open {
            false
        } else if deep {
            r.chance(3, 4)
        } else {
            r.chance(1, 2)
        };
        if o {
            ws[i / 64] |= 1 << (i % 64);
            open += 1;
        } else {
            close += 1;
        }
    }
    (ws, len)
}

/// Byte contents.  Kinds 4.. have pairwise distinct bytes within any 256-byte window (an affine
/// walk `start + j·odd mod 256`), so every word has 8 distinct bytes and two distinct halves.
fn fill_bytes(r: &mut Rng, len: usize, kind: u64) -> Vec<u8> {
    let start = r.byte();
    let step = r.byte() | 1;
    (0..len)
        .map(|j| match kind {
            0 => 0,
            1 => 0xFF,
            2 => r.byte(),
            3 => if r.chance(1, 2) { 0 } else { r.byte() },
            _ => start.wrapping_add((j as u8).wrapping_mul(step)),
        })
        .collect()
}

pub fn gen(tier: Tier, r: &mut Rng, emit: &mut dyn FnMut(String)) {
    let q = tier == Tier::Quick;
    // --- every reader × every placement 0..15 (relative to a 16-aligned base) × short lengths,
    //     exhaustively: 0, 1, 2, odd / even word counts and every bad length in between; contents with
    //     pairwise distinct bytes, so that any permutation / half-swap / byte-swap of a word shows
    for len in 0..=41usize {
        for off in 0..16usize {
            let bytes = fill_bytes(r, len, 4);
            emit(format!("C31 conv {off} {}", hex_bytes(&bytes)));
            emit(format!("C31 vec {off} {}", hex_bytes(&bytes)));
        }
    }
    for nw in [0usize, 1, 2, 3, 4, 7, 8, 9, 16, 17] {
        for o1 in 0..16usize {
            let o2 = (o1 * 5 + 3) % 16;
            let ib = fill_bytes(r, nw * 8, 4);
            let bp = fill_bytes(r, (nw + nw % 3) * 8, 5);
            emit(format!("C31 semi {o1} {o2} {} {}", hex_bytes(&ib), hex_bytes(&bp)));
        }
    }
    for o in 0..16usize {
        // documented panics: a bad length in either part
        emit(format!("C31 semi {o} {} {} {}", 15 - o, hex_bytes(&fill_bytes(r, 12, 4)), hex_bytes(&fill_bytes(r, 8, 4))));
        emit(format!("C31 semi {o} {} {} {}", 15 - o, hex_bytes(&fill_bytes(r, 16, 4)), hex_bytes(&fill_bytes(r, 7, 4))));
    }
    let n_conv = if q { 3000 } else { 40_000 };
    for i in 0..n_conv {
        // large slices are rare: the compiled model costs ~25 µs per byte
        let len = match r.below(64) {
            0..=15 => 8 * r.usize_below(80),
            16..=19 => 8 * r.usize_below(80) + 1 + r.usize_below(7),
            20 => if r.chance(1, 20) { 65536 } else { *r.pick(&[4096usize, 4095, 4097, 4104]) },
            21..=40 => 8 * r.usize_below(9),
            _ => r.usize_below(72),
        };
        let len = if q { len.min(4104) } else { len };
        let off = if i % 5 == 0 { 0 } else { r.usize_below(16) };
        let fill = r.below(8);
        let bytes = fill_bytes(r, len, fill);
        match i % 4 {
            0 => emit(format!("C31 conv {off} {}", hex_bytes(&bytes))),
            1 | 2 => emit(format!("C31 vec {off} {}", hex_bytes(&bytes))),
            _ => {
                let o2 = r.usize_below(16);
                let nbp = 8 * r.usize_below(12);
                let bp = fill_bytes(r, nbp, fill);
                let ib = &bytes[..bytes.len().min(512)];
                emit(format!("C31 semi {off} {o2} {} {}", hex_bytes(ib), hex_bytes(&bp)));
            }
        }
    }
    // --- w2b: word vectors
    let n_w = if q { 3000 } else { 40_000 };
    emit("C31 w2b -".to_string());
    for _ in 0..n_w {
        let n = if r.chance(1, 100) { r.usize_below(600) } else { r.usize_below(20) };
        let ws: Vec<u64> = (0..n).map(|_| gen_word(r)).collect();
        emit(format!("C31 w2b {}", hex_words(&ws)));
    }
    // --- rebuilt indexes: JSON documents
    let n_j = if q { 400 } else { 8000 };
    for i in 0..n_j {
        let mut t = Vec::new();
        gen_json(r, if i % 7 == 0 { 4 } else { 0 }, &mut t);
        if i % 11 == 0 && !t.is_empty() {
            // malformed stream: truncate
            let cut = r.usize_below(t.len());
            t.truncate(cut);
        }
        if i % 13 == 0 {
            // wide array crossing word / block boundaries of IB and BP
            t = b"[".to_vec();
            let n = r.range(30, 700);
            for k in 0..n {
                if k > 0 {
                    t.push(b',');
                }
                t.extend_from_slice(if r.chance(1, 4) { b"[]" } else { b"1" });
            }
            t.push(b']');
        }
        emit(format!("C31 json {} {}", i % 16, hex_bytes(&t)));
    }
    // --- rebuilt indexes: balanced parentheses and plain bit vectors
    let n_b = if q { 400 } else { 8000 };
    for i in 0..n_b {
        let (ws, len) = match i % 5 {
            0 => {
                // arbitrary (unbalanced) bits, len not a multiple of 64, stray bits above len
                let n = r.usize_below(20) + 1;
                let ws: Vec<u64> = (0..n).map(|_| gen_word(r)).collect();
                let len = (n - 1) * 64 + 1 + r.usize_below(64);
                (ws, len)
            }
            1 => {
                let pairs = *r.pick(&[0usize, 1, 31, 32, 33, 255, 256, 257, 1024]);
                gen_balanced(r, pairs)
            }
            _ => {
                let pairs = r.usize_below(1500);
                gen_balanced(r, pairs)
            }
        };
        emit(format!("C31 bp {} {} {len}", (i / 5 + i) % 16, hex_words(&ws)));
    }
    for i in 0..n_b {
        let n = if i % 9 == 0 { r.usize_below(600) } else { r.usize_below(24) };
        let ws: Vec<u64> = (0..n).map(|_| gen_word(r)).collect();
        let len = if n == 0 || r.chance(1, 3) { n * 64 } else { (n - 1) * 64 + 1 + r.usize_below(64) };
        emit(format!("C31 bv {} {} {len}", (i * 7 + 4) % 16, hex_words(&ws)));
    }
}
