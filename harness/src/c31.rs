//! C31 — binary serialization (`succinctly::binary`) at every slice alignment, and indexes rebuilt
//! from serialized parts (`JsonIndex::from_parts`, `BalancedParens::from_words`,
//! `BitVec::from_words`, `SemiIndex::from_bytes`).
//!
//!   w2b <words>          words_to_bytes, then back through all three readers (aligned)
//!                        -> <bytes>|<bytes_to_words>|<bytes_to_words_vec>|<try_bytes_to_words>
//!   conv <a> <bytes>     the byte string placed at address offset `a` (0..7) of an 8-aligned
//!                        buffer, read by each of the three functions (each call caught on its own)
//!                        -> <bytes_to_words>|<bytes_to_words_vec>|<try_bytes_to_words>
//!                           each: hex words | `none` | `PANIC`
//!   json <text>          JsonIndex::build vs from_parts(owned Vec) vs from_parts(borrowed &[u64])
//!                        on the serialized-and-reloaded IB/BP, plus SemiIndex::from_bytes
//!   bp <words> <len>     BalancedParens::new vs from_words (owned / borrowed) on reloaded words
//!   bv <words> <len>     BitVec::from_words vs the same on reloaded words
//!                        -> `EQ n=<queries> d=<digest>` when every structure answers the whole
//!                           query battery identically, else `DIFF …`  (implementation vs
//!                           implementation; the model side answers `EQ`)
use crate::rng::Rng;
use crate::util::*;
use crate::Tier;
use std::panic::{catch_unwind, AssertUnwindSafe};
use succinctly::binary;
use succinctly::json::JsonIndex;
use succinctly::trees::BalancedParens;
use succinctly::{BitVec, RankSelect};

pub fn tables() -> Vec<(&'static str, String)> {
    vec![]
}

/// An 8-aligned buffer (backed by `Vec<u64>`) holding `bytes` at byte offset `a`.
struct Aligned {
    buf: Vec<u64>,
    a: usize,
    len: usize,
}

impl Aligned {
    fn new(a: usize, bytes: &[u8]) -> Self {
        let total = a + bytes.len();
        let mut raw = vec![0u8; total.div_ceil(8) * 8 + 8];
        raw[a..a + bytes.len()].copy_from_slice(bytes);
        let buf: Vec<u64> = raw.chunks_exact(8).map(|c| u64::from_ne_bytes(c.try_into().unwrap())).collect();
        Aligned { buf, a, len: bytes.len() }
    }
    fn slice(&self) -> &[u8] {
        let all = binary::words_to_bytes(&self.buf);
        assert_eq!(all.as_ptr() as usize % 8, 0);
        &all[self.a..self.a + self.len]
    }
}

fn caught<T>(f: impl FnOnce() -> T, show: impl FnOnce(T) -> String) -> String {
    match catch_unwind(AssertUnwindSafe(f)) {
        Ok(v) => show(v),
        Err(_) => "PANIC".to_string(),
    }
}

fn three_readers(s: &[u8]) -> String {
    format!(
        "{}|{}|{}",
        caught(|| binary::bytes_to_words(s).to_vec(), |w| hex_words(&w)),
        caught(|| binary::bytes_to_words_vec(s), |w| hex_words(&w)),
        caught(
            || binary::try_bytes_to_words(s).map(|w| w.to_vec()),
            |o| match o {
                Some(w) => hex_words(&w),
                None => "none".to_string(),
            }
        ),
    )
}

struct Digest {
    h: u64,
    n: u64,
}

impl Digest {
    fn new() -> Self {
        Digest { h: 0xcbf2_9ce4_8422_2325, n: 0 }
    }
    fn put(&mut self, v: u64) {
        for b in v.to_le_bytes() {
            self.h = (self.h ^ b as u64).wrapping_mul(0x100_0000_01b3);
        }
        self.n += 1;
    }
    fn opt(&mut self, o: Option<usize>) {
        match o {
            Some(v) => self.put(v as u64 + 1),
            None => self.put(0),
        }
    }
}

/// Positions to probe in `0..=n`: all of them when small, otherwise a stride plus both ends.
fn probes(n: usize) -> Vec<usize> {
    if n <= 1500 {
        (0..=n + 2).collect()
    } else {
        let mut v: Vec<usize> = (0..=n + 2).step_by(n / 1000 + 1).collect();
        v.extend([n - 1, n, n + 1, 63, 64, 65, 511, 512, 513]);
        v
    }
}

fn bp_battery<W: AsRef<[u64]>>(bp: &BalancedParens<W>, d: &mut Digest) {
    d.put(bp.len() as u64);
    d.put(bp.total_ones() as u64);
    for &w in bp.words() {
        d.put(w);
    }
    for p in probes(bp.len()) {
        d.put(bp.rank1(p) as u64);
        d.put(bp.rank0(p) as u64);
        d.put(bp.is_open(p) as u64);
        if p < bp.len() {
            d.put(bp.excess(p) as i64 as u64);
            d.opt(bp.find_close(p));
            d.opt(bp.find_open(p));
            d.opt(bp.enclose(p));
            d.opt(bp.first_child(p));
            d.opt(bp.next_sibling(p));
            d.opt(bp.parent(p));
        }
    }
}

fn json_battery<W: AsRef<[u64]>>(ix: &JsonIndex<W>, text: &[u8], d: &mut Digest) {
    d.put(ix.ib_len() as u64);
    for &w in ix.ib() {
        d.put(w);
    }
    let ones: usize = ix.ib().iter().map(|w| w.count_ones() as usize).sum();
    for p in probes(ix.ib_len()) {
        d.put(ix.ib_rank1(p) as u64);
    }
    for k in probes(ones) {
        d.opt(ix.ib_select1(k));
    }
    bp_battery(ix.bp(), d);
    // cursor walk (document order), bounded
    let mut stack = vec![ix.root(text)];
    let mut visited = 0;
    while let Some(c) = stack.pop() {
        visited += 1;
        if visited > 4000 {
            break;
        }
        d.put(c.bp_position() as u64);
        d.opt(c.text_position());
        match c.text_range() {
            Some((a, b)) => {
                d.put(a as u64);
                d.put(b as u64);
            }
            None => d.put(u64::MAX),
        }
        d.put(c.is_container() as u64);
        let (l, col) = ix.to_line_column(c.text_position().unwrap_or(0), text);
        d.put(l as u64);
        d.put(col as u64);
        if let Some(s) = c.next_sibling() {
            stack.push(s);
        }
        if let Some(f) = c.first_child() {
            stack.push(f);
        }
    }
}

fn digest_of(f: impl FnOnce(&mut Digest)) -> String {
    caught(
        || {
            let mut d = Digest::new();
            f(&mut d);
            d
        },
        |d| format!("{}:{:016x}", d.n, d.h),
    )
}

fn verdict(ds: &[(&str, String)]) -> String {
    if ds.iter().all(|(_, d)| *d == ds[0].1) {
        let (n, h) = ds[0].1.split_once(':').unwrap_or((ds[0].1.as_str(), ""));
        format!("EQ n={n} d={h}")
    } else {
        format!("DIFF {}", ds.iter().map(|(k, d)| format!("{k}={d}")).collect::<Vec<_>>().join(" "))
    }
}

/// Serialize words to a byte string and load that byte string into a fresh 8-aligned buffer
/// (what writing a file and mapping it back does).
fn reload(words: &[u64]) -> Aligned {
    Aligned::new(0, binary::words_to_bytes(words))
}

pub fn exec(a: &[&str]) -> String {
    match a[0] {
        "w2b" => {
            let ws = parse_words(a[1]);
            let bytes = binary::words_to_bytes(&ws);
            format!("{}|{}", hex_bytes(bytes), three_readers(bytes))
        }
        "conv" => {
            let off = num(a[1]);
            let bytes = parse_bytes(a[2]);
            let buf = Aligned::new(off, &bytes);
            three_readers(buf.slice())
        }
        "json" => {
            let text = parse_bytes(a[1]);
            let Ok(orig) = catch_unwind(|| JsonIndex::build(&text)) else { return "BUILD-PANIC".into() };
            let (ib_len, bp_len) = (orig.ib_len(), orig.bp().len());
            let ib = reload(orig.ib());
            let bp = reload(orig.bp().words());
            let d0 = digest_of(|d| json_battery(&orig, &text, d));
            let d1 = digest_of(|d| {
                let owned = JsonIndex::from_parts(
                    binary::bytes_to_words_vec(ib.slice()),
                    ib_len,
                    binary::bytes_to_words_vec(bp.slice()),
                    bp_len,
                );
                json_battery(&owned, &text, d)
            });
            let d2 = digest_of(|d| {
                let borrowed: JsonIndex<&[u64]> =
                    JsonIndex::from_parts(binary::bytes_to_words(ib.slice()), ib_len, binary::bytes_to_words(bp.slice()), bp_len);
                json_battery(&borrowed, &text, d)
            });
            let d3 = digest_of(|d| {
                // try_ form + the Option it returns
                let ibw = binary::try_bytes_to_words(ib.slice()).expect("multiple of 8");
                let bpw = binary::try_bytes_to_words(bp.slice()).expect("multiple of 8");
                let borrowed: JsonIndex<&[u64]> = JsonIndex::from_parts(ibw, ib_len, bpw, bp_len);
                json_battery(&borrowed, &text, d)
            });
            // SemiIndex::{ib,bp}_as_bytes / from_bytes
            let semi_ok = caught(
                || {
                    let semi = succinctly::json::standard::build_semi_index(&text);
                    let ib2 = Aligned::new(0, semi.ib_as_bytes());
                    let bp2 = Aligned::new(0, semi.bp_as_bytes());
                    let back = succinctly::json::standard::SemiIndex::from_bytes(ib2.slice(), bp2.slice());
                    back.ib == semi.ib && back.bp == semi.bp
                },
                |b| b.to_string(),
            );
            if semi_ok != "true" {
                return format!("DIFF semi-index from_bytes: {semi_ok}");
            }
            verdict(&[("orig", d0), ("owned", d1), ("borrowed", d2), ("try", d3)])
        }
        "bp" => {
            let ws = parse_words(a[1]);
            let len = num(a[2]);
            let Ok(orig) = catch_unwind(|| BalancedParens::new(ws.clone(), len)) else { return "BUILD-PANIC".into() };
            let ser = reload(orig.words());
            let d0 = digest_of(|d| bp_battery(&orig, d));
            let d1 = digest_of(|d| bp_battery(&BalancedParens::from_words(binary::bytes_to_words_vec(ser.slice()), len), d));
            let d2 = digest_of(|d| {
                let b: BalancedParens<&[u64]> = BalancedParens::from_words(binary::bytes_to_words(ser.slice()), len);
                bp_battery(&b, d)
            });
            verdict(&[("orig", d0), ("owned", d1), ("borrowed", d2)])
        }
        "bv" => {
            let ws = parse_words(a[1]);
            let len = num(a[2]);
            let Ok(orig) = catch_unwind(|| BitVec::from_words(ws.clone(), len)) else { return "BUILD-PANIC".into() };
            let ser = reload(orig.words());
            let battery = |b: &BitVec, d: &mut Digest| {
                d.put(b.len() as u64);
                d.put(b.count_ones() as u64);
                d.put(b.count_zeros() as u64);
                for &w in b.words() {
                    d.put(w);
                }
                for p in probes(b.len()) {
                    if p <= b.len() {
                        d.put(b.rank1(p) as u64);
                        d.put(b.rank0(p) as u64);
                    }
                    if p < b.len() {
                        d.put(b.get(p) as u64);
                    }
                    d.opt(b.select1(p));
                    d.opt(b.select0(p));
                }
            };
            let d0 = digest_of(|d| battery(&orig, d));
            let d1 = digest_of(|d| battery(&BitVec::from_words(binary::bytes_to_words_vec(ser.slice()), len), d));
            verdict(&[("orig", d0), ("reloaded", d1)])
        }
        _ => "BAD-OP".into(),
    }
}

// ---------------------------------------------------------------------------------------------
// generators

fn gen_word(r: &mut Rng) -> u64 {
    match r.below(6) {
        0 => *r.pick(&[0u64, u64::MAX, 1, 1 << 63, 0x0123_4567_89AB_CDEF, 0xFF, 0xFF00_0000_0000_0000, 0x8000_0000_0000_0001]),
        1 => r.sparse_word(3),
        2 => !r.sparse_word(3),
        3 => (r.byte() as u64) << (8 * r.below(8)),
        _ => r.next_u64(),
    }
}

fn gen_json(r: &mut Rng, depth: u32, out: &mut Vec<u8>) {
    let ws = |r: &mut Rng, out: &mut Vec<u8>| {
        for _ in 0..r.below(3) {
            out.push(*r.pick(&[b' ', b'\n', b'\t', b'\r']));
        }
    };
    // top level: mostly containers (scalars exercise almost nothing of the index)
    let kind = if depth >= 5 { r.below(5) } else if depth == 0 && r.chance(4, 5) { 5 + r.below(3) } else { r.below(8) };
    match kind {
        0 => out.extend_from_slice(*r.pick(&[&b"null"[..], b"true", b"false"])),
        1 | 2 => {
            let nums: [&[u8]; 8] = [b"0", b"-1", b"12345", b"3.25", b"1e9", b"-0.5E-3", b"18446744073709551616", b"7"];
            out.extend_from_slice(*r.pick(&nums));
        }
        3 | 4 => gen_str(r, out),
        5 | 6 => {
            out.push(b'[');
            ws(r, out);
            let n = r.below(6);
            for i in 0..n {
                if i > 0 {
                    out.push(b',');
                    ws(r, out);
                }
                gen_json(r, depth + 1, out);
                ws(r, out);
            }
            out.push(b']');
        }
        _ => {
            out.push(b'{');
            ws(r, out);
            let n = r.below(6);
            for i in 0..n {
                if i > 0 {
                    out.push(b',');
                    ws(r, out);
                }
                gen_str(r, out);
                ws(r, out);
                out.push(b':');
                ws(r, out);
                gen_json(r, depth + 1, out);
                ws(r, out);
            }
            out.push(b'}');
        }
    }
}

fn gen_str(r: &mut Rng, out: &mut Vec<u8>) {
    out.push(b'"');
    for _ in 0..r.below(12) {
        match r.below(12) {
            0 => out.extend_from_slice(b"\\\""),
            1 => out.extend_from_slice(b"\\\\"),
            2 => out.extend_from_slice(b"\\u00e9"),
            3 => out.extend_from_slice("é".as_bytes()),
            4 => out.extend_from_slice(*r.pick(&[&b"{"[..], b"}", b"[", b"]", b",", b":"])),
            _ => out.push(b'a' + r.below(26) as u8),
        }
    }
    out.push(b'"');
}

/// A balanced parenthesis sequence of `pairs` pairs as bits (1 = open), LSB first.
fn gen_balanced(r: &mut Rng, pairs: usize) -> (Vec<u64>, usize) {
    let len = pairs * 2;
    let mut ws = vec![0u64; len.div_ceil(64)];
    let (mut open, mut close) = (0usize, 0usize);
    let deep = r.chance(1, 3);
    for i in 0..len {
        let can_open = open < pairs;
        let can_close = close < open;
        let o = if !can_close {
            true
        } else if !can_open {
            false
        } else if deep {
            r.chance(3, 4)
        } else {
            r.chance(1, 2)
        };
        if o {
            ws[i / 64] |= 1 << (i % 64);
            open += 1;
        } else {
            close += 1;
        }
    }
    (ws, len)
}

pub fn gen(tier: Tier, r: &mut Rng, emit: &mut dyn FnMut(String)) {
    let q = tier == Tier::Quick;
    // --- conv: every length residue × every alignment offset, exhaustively for short strings
    for len in 0..=33usize {
        for a in 0..8usize {
            let bytes: Vec<u8> = (0..len).map(|_| r.byte()).collect();
            emit(format!("C31 conv {a} {}", hex_bytes(&bytes)));
        }
    }
    let n_conv = if q { 3000 } else { 40_000 };
    for i in 0..n_conv {
        // large slices are rare: the compiled model costs ~25 µs per byte
        let len = match r.below(64) {
            0..=7 => 8 * r.usize_below(80),
            8..=15 => 8 * r.usize_below(80) + 1 + r.usize_below(7),
            16 => if r.chance(1, 20) { 65536 } else { *r.pick(&[4096usize, 4095, 4097, 4104]) },
            _ => r.usize_below(72),
        };
        let len = if q { len.min(4104) } else { len };
        let a = if i % 3 == 0 { 0 } else { r.usize_below(8) };
        let fill = r.below(4);
        let bytes: Vec<u8> = (0..len)
            .map(|j| match fill {
                0 => 0,
                1 => 0xFF,
                2 => j as u8,
                _ => r.byte(),
            })
            .collect();
        emit(format!("C31 conv {a} {}", hex_bytes(&bytes)));
    }
    // --- w2b: word vectors
    let n_w = if q { 3000 } else { 40_000 };
    emit("C31 w2b -".to_string());
    for _ in 0..n_w {
        let n = if r.chance(1, 100) { r.usize_below(600) } else { r.usize_below(20) };
        let ws: Vec<u64> = (0..n).map(|_| gen_word(r)).collect();
        emit(format!("C31 w2b {}", hex_words(&ws)));
    }
    // --- rebuilt indexes: JSON documents
    let n_j = if q { 400 } else { 8000 };
    for i in 0..n_j {
        let mut t = Vec::new();
        gen_json(r, if i % 7 == 0 { 4 } else { 0 }, &mut t);
        if i % 11 == 0 && !t.is_empty() {
            // malformed stream: truncate
            let cut = r.usize_below(t.len());
            t.truncate(cut);
        }
        if i % 13 == 0 {
            // wide array crossing word / block boundaries of IB and BP
            t = b"[".to_vec();
            let n = r.range(30, 700);
            for k in 0..n {
                if k > 0 {
                    t.push(b',');
                }
                t.extend_from_slice(if r.chance(1, 4) { b"[]" } else { b"1" });
            }
            t.push(b']');
        }
        emit(format!("C31 json {}", hex_bytes(&t)));
    }
    // --- rebuilt indexes: balanced parentheses and plain bit vectors
    let n_b = if q { 400 } else { 8000 };
    for i in 0..n_b {
        let (ws, len) = match i % 5 {
            0 => {
                // arbitrary (unbalanced) bits, len not a multiple of 64, stray bits above len
                let n = r.usize_below(20) + 1;
                let ws: Vec<u64> = (0..n).map(|_| gen_word(r)).collect();
                let len = (n - 1) * 64 + 1 + r.usize_below(64);
                (ws, len)
            }
            1 => {
                let pairs = *r.pick(&[0usize, 1, 31, 32, 33, 255, 256, 257, 1024]);
                gen_balanced(r, pairs)
            }
            _ => {
                let pairs = r.usize_below(1500);
                gen_balanced(r, pairs)
            }
        };
        emit(format!("C31 bp {} {len}", hex_words(&ws)));
    }
    for i in 0..n_b {
        let n = if i % 9 == 0 { r.usize_below(600) } else { r.usize_below(24) };
        let ws: Vec<u64> = (0..n).map(|_| gen_word(r)).collect();
        let len = if n == 0 || r.chance(1, 3) { n * 64 } else { (n - 1) * 64 + 1 + r.usize_below(64) };
        emit(format!("C31 bv {} {len}", hex_words(&ws)));
    }
}
