//! C07 — JSON interest-bit rank/select and node positions.
//!
//! ops
//!   ibq <ib words> <ib_len> <r:p,..> <s:k,..> <f:k:h,..>   rank / select / select_from on an index
//!        rebuilt with `JsonIndex::from_parts` (arbitrary words, garbage allowed)
//!   doc <json hex> <ib words> <bp words> <bp_len> <starts> <offsets>
//!        `JsonIndex::build(json)`: text_position of every node (preorder) and
//!        cursor_at_offset / cursor_at_position for the listed offsets. The embedded ib/bp words
//!        are what the implementation produced at generation time (the model computes from them;
//!        the indexer itself is property C05); `starts` are the generator's own node start
//!        offsets, used for the in-process property oracle.
use crate::rng::Rng;
use crate::util::*;
use crate::Tier;
use succinctly::json::light::{JsonCursor, JsonIndex};

pub fn tables() -> Vec<(&'static str, String)> {
    Vec::new()
}

fn parse_list(s: &str) -> Vec<usize> {
    let body = &s[2..];
    if body.is_empty() || body == "-" {
        return Vec::new();
    }
    body.split(',').map(|t| t.parse::<usize>().unwrap()).collect()
}

pub fn exec(a: &[&str]) -> String {
    match a[0] {
        "ibq" => {
            let ib = parse_words(a[1]);
            let ib_len = num(a[2]);
            let idx = JsonIndex::from_parts(ib, ib_len, Vec::new(), 0);
            let rs: Vec<String> = parse_list(a[3]).iter().map(|&p| idx.ib_rank1(p).to_string()).collect();
            let ss: Vec<String> = parse_list(a[4]).iter().map(|&k| opt(idx.ib_select1(k))).collect();
            let body = &a[5][2..];
            let fs: Vec<String> = if body == "-" {
                Vec::new()
            } else {
                body.split(',')
                    .map(|t| {
                        let (k, h) = t.split_once(':').unwrap();
                        opt(idx.ib_select1_from(k.parse().unwrap(), h.parse().unwrap()))
                    })
                    .collect()
            };
            format!("r:{};s:{};f:{}", rs.join(","), ss.join(","), fs.join(","))
        }
        "doc" => {
            let text = parse_bytes(a[1]);
            let ib = parse_words(a[2]);
            let bp = parse_words(a[3]);
            let bp_len = num(a[4]);
            let starts = parse_list(a[5]);
            let offsets = parse_list(a[6]);
            let idx = JsonIndex::build(&text);
            if idx.ib() != ib.as_slice() || idx.bp().words() != bp.as_slice() || idx.bp().len() != bp_len {
                return "INDEX-CHANGED".into();
            }
            let root = idx.root(&text);
            // text position of every node, in BP (= pre-) order
            let mut tps = Vec::new();
            let mut node_bp = Vec::new();
            for p in 0..bp_len {
                if idx.bp().is_open(p) {
                    let c = JsonCursor::from_bp_position(&idx, &text, p);
                    tps.push(opt(c.text_position()));
                    node_bp.push(p);
                }
            }
            let mut oracle_ok = tps.len() == starts.len()
                && tps.iter().zip(&starts).all(|(t, s)| *t == s.to_string());
            let mut cs = Vec::new();
            for &o in &offsets {
                let got = root.cursor_at_offset(o).map(|c| c.bp_position());
                // same query through the line/column route must give the same node
                if o < text.len() {
                    let (line, col) = idx.to_line_column(o, &text);
                    let via = root.cursor_at_position(line, col).map(|c| c.bp_position());
                    if via != got {
                        cs.push(format!("POSITION-ROUTE-DIFFERS@{o}"));
                        continue;
                    }
                }
                // property oracle: node with the greatest start <= o
                let want = if o >= text.len() {
                    None
                } else {
                    let n = starts.iter().filter(|&&s| s <= o).count();
                    if n == 0 {
                        None
                    } else {
                        // starts are increasing, so the last such node is node n-1
                        node_bp.get(n - 1).copied()
                    }
                };
                if want != got {
                    oracle_ok = false;
                }
                cs.push(opt(got));
            }
            format!("tp:{};c:{};{}", tps.join(","), cs.join(","), if oracle_ok { "ORACLE-OK" } else { "ORACLE-FAIL" })
        }
        _ => "BAD-OP".into(),
    }
}

// ---------------------------------------------------------------- JSON generator with node starts

pub struct Doc {
    pub text: Vec<u8>,
    pub starts: Vec<usize>,
}

fn ws(r: &mut Rng, out: &mut Vec<u8>) {
    let n = match r.below(8) {
        0 => r.below(4),
        1 => r.below(40),
        _ => 0,
    };
    for _ in 0..n {
        out.push(*r.pick(&[b' ', b'\n', b'\t', b'\r']));
    }
}

fn gen_string(r: &mut Rng, out: &mut Vec<u8>) {
    out.push(b'"');
    let n = match r.below(6) {
        0 => 0,
        1 => r.below(70),
        _ => r.below(8),
    };
    for _ in 0..n {
        match r.below(12) {
            0 => out.extend_from_slice(b"\\\""),
            1 => out.extend_from_slice(b"\\\\"),
            2 => out.extend_from_slice(b"\\n"),
            3 => out.extend_from_slice(format!("\\u{:04x}", r.below(0xD800)).as_bytes()),
            4 => out.extend_from_slice("é".as_bytes()),
            5 => out.extend_from_slice(b"{[,:]}"),
            6 => out.extend_from_slice("😀".as_bytes()),
            _ => out.push(b'a' + r.below(26) as u8),
        }
    }
    out.push(b'"');
}

fn gen_value(r: &mut Rng, depth: u32, out: &mut Vec<u8>, starts: &mut Vec<usize>) {
    starts.push(out.len());
    let kind = if depth == 0 { r.below(5) } else { r.below(8) };
    match kind {
        0 => out.extend_from_slice(*r.pick(&[&b"null"[..], b"true", b"false"])),
        1 => out.extend_from_slice(
            r.pick(&["0", "-1", "12345678901234567890", "1.5e10", "-0.0", "3E-7", "1e400", "7"]).as_bytes(),
        ),
        2 | 3 => gen_string(r, out),
        4 => out.extend_from_slice(r.below(100_000).to_string().as_bytes()),
        5 | 6 => {
            out.push(b'[');
            let n = r.below(5);
            for i in 0..n {
                ws(r, out);
                gen_value(r, depth - 1, out, starts);
                ws(r, out);
                if i + 1 < n {
                    out.push(b',');
                }
            }
            ws(r, out);
            out.push(b']');
        }
        _ => {
            out.push(b'{');
            let n = r.below(5);
            for i in 0..n {
                ws(r, out);
                starts.push(out.len());
                gen_string(r, out);
                ws(r, out);
                out.push(b':');
                ws(r, out);
                gen_value(r, depth - 1, out, starts);
                ws(r, out);
                if i + 1 < n {
                    out.push(b',');
                }
            }
            ws(r, out);
            out.push(b'}');
        }
    }
}

pub fn gen_doc(r: &mut Rng, depth: u32) -> Doc {
    let mut text = Vec::new();
    let mut starts = Vec::new();
    ws(r, &mut text);
    gen_value(r, depth, &mut text, &mut starts);
    ws(r, &mut text);
    Doc { text, starts }
}

fn fmt_list(tag: char, xs: &[usize]) -> String {
    format!("{tag}:{}", list(xs))
}

pub fn gen(tier: Tier, r: &mut Rng, emit: &mut dyn FnMut(String)) {
    let n_ibq = if tier == Tier::Quick { 1500 } else { 30_000 };
    for i in 0..n_ibq {
        // arbitrary IB words: sparse like JSON (~1/8), dense, zero runs, garbage past ib_len
        let nw = match r.below(6) {
            0 => r.usize_below(3),
            1 => 60 + r.usize_below(80),
            _ => 1 + r.usize_below(24),
        };
        let dens = *r.pick(&[1u32, 2, 3, 3, 4, 6]);
        let ws: Vec<u64> = (0..nw).map(|_| if r.chance(1, 3) { 0 } else { r.sparse_word(dens) }).collect();
        let cap = nw * 64;
        let ib_len = match r.below(4) {
            0 => cap,
            1 => cap.saturating_sub(r.usize_below(64)),
            2 => r.usize_below(cap + 1),
            _ => cap + r.usize_below(3), // a little beyond the stored words
        };
        let ones: usize = ws.iter().map(|w| w.count_ones() as usize).sum();
        let mut rs = vec![0, 1, 63, 64, 65, ib_len, ib_len + 1, cap, cap + 70];
        for _ in 0..6 {
            rs.push(r.usize_below(cap + 2));
        }
        let mut ks = vec![0, 1, ones.saturating_sub(1), ones, ones + 1, ones + 3];
        for _ in 0..6 {
            ks.push(r.usize_below(ones + 2));
        }
        if i % 50 == 0 {
            ks.extend_from_slice(&[(1usize << 32) - 1, 1 << 32, (1 << 32) + 1, usize::MAX]);
        }
        // adversarial hints: every word index up to words+10 for a few k, random otherwise
        let mut fs = Vec::new();
        for &k in ks.iter().take(8) {
            if i % 10 == 0 {
                for h in 0..=(nw + 10) {
                    fs.push(format!("{k}:{h}"));
                }
            } else {
                for _ in 0..4 {
                    fs.push(format!("{k}:{}", r.usize_below(nw + 11)));
                }
                fs.push(format!("{k}:0"));
                fs.push(format!("{k}:{}", nw + 10));
                fs.push(format!("{k}:{}", usize::MAX));
            }
        }
        emit(format!(
            "C07 ibq {} {ib_len} {} {} f:{}",
            hex_words(&ws),
            fmt_list('r', &rs),
            fmt_list('s', &ks),
            if fs.is_empty() { "-".to_string() } else { fs.join(",") }
        ));
    }
    let n_doc = if tier == Tier::Quick { 600 } else { 12_000 };
    for i in 0..n_doc {
        let depth = if i % 17 == 0 { 6 } else { 1 + r.below(4) as u32 };
        let d = gen_doc(r, depth);
        if d.text.len() > 60_000 {
            continue;
        }
        let idx = JsonIndex::build(&d.text);
        let offsets: Vec<usize> = if d.text.len() <= 300 {
            (0..d.text.len() + 2).collect()
        } else {
            let mut v: Vec<usize> = (0..120).map(|_| r.usize_below(d.text.len() + 1)).collect();
            for &s in d.starts.iter().take(40) {
                v.push(s);
                v.push(s + 1);
                v.push(s.saturating_sub(1));
            }
            v
        };
        emit(format!(
            "C07 doc {} {} {} {} {} {}",
            hex_bytes(&d.text),
            hex_words(idx.ib()),
            hex_words(idx.bp().words()),
            idx.bp().len(),
            fmt_list('n', &d.starts),
            fmt_list('o', &offsets)
        ));
    }
}
