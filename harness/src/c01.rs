//! C01 — `BitVec` rank / select / access against the proved model.
//!
//! One request = one construction plus a whole operation list:
//!   `C01 bv <words> <len> <rate> <ops>`   ->   comma-separated answers (or `PANIC` when
//! `with_config` panics).  Ops: `r1:<i>` `r0:<i>` `s1:<k>` `s0:<k>` `g:<i>` (`P` = the documented
//! panic of `get`) `c1` `c0`.  The popcount strategy is whatever the harness build selected
//! (default / `simd` / `portable-popcount`).
use crate::rng::Rng;
use crate::util::*;
use crate::Tier;
use std::panic::{catch_unwind, AssertUnwindSafe};
use succinctly::{BitVec, Config, RankSelect};

pub fn tables() -> Vec<(&'static str, String)> {
    Vec::new()
}

pub fn exec(a: &[&str]) -> String {
    match a[0] {
        "bv" => {
            let ws = parse_words(a[1]);
            let len = num(a[2]);
            let rate: u32 = a[3].parse().expect("rate");
            // a panic here (len > capacity) propagates to main's catch_unwind -> "PANIC"
            let bv = BitVec::with_config(ws, len, Config { select_sample_rate: rate });
            let mut out: Vec<String> = Vec::new();
            if a[4] != "-" {
                for tok in a[4].split(',') {
                    let (op, arg) = match tok.split_once(':') {
                        Some((o, x)) => (o, num(x)),
                        None => (tok, 0),
                    };
                    out.push(match op {
                        "r1" => bv.rank1(arg).to_string(),
                        "r0" => bv.rank0(arg).to_string(),
                        "s1" => opt(bv.select1(arg)),
                        "s0" => opt(bv.select0(arg)),
                        "g" => match catch_unwind(AssertUnwindSafe(|| bv.get(arg))) {
                            Ok(true) => "1".into(),
                            Ok(false) => "0".into(),
                            Err(_) => "P".into(),
                        },
                        "c1" => bv.count_ones().to_string(),
                        "c0" => bv.count_zeros().to_string(),
                        _ => "BAD-OP".into(),
                    });
                }
            }
            out.join(",")
        }
        _ => "BAD-OP".into(),
    }
}

const RATES: [u32; 11] = [0, 1, 2, 3, 7, 64, 255, 256, 257, 1000, 4096];

fn pick_rate(r: &mut Rng) -> u32 {
    match r.below(10) {
        0..=5 => *r.pick(&RATES),
        6 | 7 => r.range(1, 4096) as u32,
        8 => r.range(1, 40) as u32,
        _ => *r.pick(&[u32::MAX, 1 << 31, 65536, 5000]),
    }
}

/// Word vectors by class; returns (class name, words).
fn gen_words(r: &mut Rng, n: usize, class: u64) -> Vec<u64> {
    let mut ws = vec![0u64; n];
    match class {
        // dense random
        0 => ws.iter_mut().for_each(|w| *w = r.next_u64()),
        // Bernoulli-sparse, density 2^-d, d = 1..=12 (d > 6: AND of word-sparse and bit-sparse)
        1 => {
            let d = r.range(1, 12) as u32;
            for w in ws.iter_mut() {
                *w = if d <= 6 {
                    r.sparse_word(d)
                } else if r.chance(1, 1 << (d - 6)) {
                    r.sparse_word(6)
                } else {
                    0
                };
            }
        }
        // islands of ones separated by zero runs that cross 1-5 scan blocks (8 words) / rank blocks
        2 => {
            let mut i = 0usize;
            while i < n {
                let island = r.range(1, 3) as usize;
                for _ in 0..island {
                    if i < n {
                        ws[i] = if r.chance(1, 2) {
                            let d = r.range(1, 5) as u32;
                            r.sparse_word(d)
                        } else {
                            1u64 << r.below(64)
                        };
                        i += 1;
                    }
                }
                // zero run: k blocks of 8 words, +/- a few words so runs start/end off the block grid
                let k = r.range(1, 5) as usize;
                i += (k * 8 + r.usize_below(9)).saturating_sub(r.usize_below(5));
            }
        }
        // all ones
        3 => ws.iter_mut().for_each(|w| *w = u64::MAX),
        // single bit far away (optionally one more at the very start)
        4 => {
            if n > 0 {
                let p = if r.chance(1, 2) { n - 1 - r.usize_below(n.min(3)) } else { r.usize_below(n) };
                ws[p] = 1u64 << r.below(64);
                if r.chance(1, 2) {
                    ws[0] |= 1u64 << r.below(64);
                }
            }
        }
        // all zeros
        5 => {}
        // mostly ones, sparse zeros (select0 side)
        6 => {
            let d = r.range(1, 10) as u32;
            for w in ws.iter_mut() {
                *w = if d <= 6 {
                    !r.sparse_word(d)
                } else if r.chance(1, 1 << (d - 6)) {
                    !r.sparse_word(6)
                } else {
                    u64::MAX
                };
            }
        }
        // zero prefix then dense (first one far away) / dense then zero suffix
        7 => {
            let cut = r.usize_below(n + 1);
            let front = r.chance(1, 2);
            for (i, w) in ws.iter_mut().enumerate() {
                if (i < cut) == front {
                    *w = r.next_u64();
                }
            }
        }
        // period patterns
        _ => {
            let p = *r.pick(&[0x5555_5555_5555_5555u64, 0xAAAA_AAAA_AAAA_AAAA, 0x8000_0000_0000_0001, 1, 1 << 63, 0xFF00_FF00_FF00_FF00]);
            ws.iter_mut().for_each(|w| *w = p);
        }
    }
    ws
}

fn pick_n(r: &mut Rng, max_n: usize) -> usize {
    let n = match r.below(20) {
        0..=5 => r.usize_below(20),
        6..=10 => r.usize_below(90),
        11..=13 => {
            // around 8-word scan blocks / rank blocks and their multiples
            let k = r.range(1, 9) as usize;
            (k * 8 + r.usize_below(3)).saturating_sub(1)
        }
        14..=16 => r.usize_below(max_n.min(300) + 1),
        _ => r.usize_below(max_n + 1),
    };
    n.min(max_n)
}

fn pick_len(r: &mut Rng, n: usize) -> usize {
    let cap = n * 64;
    if cap == 0 {
        return 0;
    }
    match r.below(10) {
        0 | 1 => cap,
        2 => cap - r.usize_below(64.min(cap + 1)),
        3 | 4 => {
            // around a word edge
            let j = r.usize_below(n + 1) * 64;
            (j + r.usize_below(3)).saturating_sub(1).min(cap)
        }
        5 => {
            // around a 512-bit rank-block edge
            let j = r.usize_below(n / 8 + 1) * 512;
            (j + r.usize_below(5)).saturating_sub(2).min(cap)
        }
        6 => r.usize_below(cap.min(130) + 1), // short prefix: many surplus words
        _ => r.usize_below(cap + 1),
    }
}

/// Naive facts about the first `len` bits (used only to aim the arguments).
fn naive_counts(ws: &[u64], len: usize) -> (usize, usize) {
    let mut ones = 0usize;
    for (i, w) in ws.iter().enumerate() {
        if (i + 1) * 64 <= len {
            ones += w.count_ones() as usize;
        } else if i * 64 < len {
            ones += (w & ((1u64 << (len - i * 64)) - 1)).count_ones() as usize;
        }
    }
    (ones, len - ones)
}

fn around(v: &mut Vec<usize>, x: usize) {
    v.push(x.wrapping_sub(1));
    v.push(x);
    v.push(x.wrapping_add(1));
}

fn ops_for(r: &mut Rng, ws: &[u64], len: usize, rate: u32, budget: usize) -> String {
    let (ones, zeros) = naive_counts(ws, len);
    let n = ws.len();
    let mut toks: Vec<String> = vec!["c1".into(), "c0".into()];
    // positions (rank / get)
    let mut pos: Vec<usize> = vec![0, 1, usize::MAX, usize::MAX - 1, 1 << 32, (1usize << 32) + 1];
    around(&mut pos, len);
    around(&mut pos, n * 64);
    for _ in 0..3 {
        around(&mut pos, r.usize_below(n + 1) * 64);
        around(&mut pos, r.usize_below(n / 8 + 1) * 512);
    }
    for _ in 0..budget {
        pos.push(r.usize_below(len + 2));
    }
    // ranks (select)
    let rt = rate.max(1) as usize;
    let mut ks1: Vec<usize> = vec![0, 1, usize::MAX, 1 << 32];
    around(&mut ks1, ones);
    let mut ks0: Vec<usize> = vec![0, 1, usize::MAX, 1 << 32];
    around(&mut ks0, zeros);
    for _ in 0..3 {
        // sample points of the select index
        let m = r.usize_below(ones / rt + 2);
        around(&mut ks1, m.wrapping_mul(rt));
        let m0 = r.usize_below(zeros / rt + 2);
        around(&mut ks0, m0.wrapping_mul(rt));
    }
    for _ in 0..budget {
        ks1.push(r.usize_below(ones + 2));
        ks0.push(r.usize_below(zeros + 2));
    }
    for &p in &pos {
        toks.push(format!("r1:{p}"));
        if r.chance(1, 2) {
            toks.push(format!("r0:{p}"));
        }
        if r.chance(1, 2) {
            toks.push(format!("g:{p}"));
        }
    }
    for &k in &ks1 {
        toks.push(format!("s1:{k}"));
    }
    for &k in &ks0 {
        toks.push(format!("s0:{k}"));
    }
    toks.join(",")
}

fn emit_bv(emit: &mut dyn FnMut(String), ws: &[u64], len: usize, rate: u32, ops: &str) {
    emit(format!("C01 bv {} {len} {rate} {ops}", hex_words(ws)));
}

pub fn gen(tier: Tier, r: &mut Rng, emit: &mut dyn FnMut(String)) {
    let quick = tier == Tier::Quick;
    let max_n = if quick { 512 } else { 4096 };

    // (a) every residue of len mod 64 at word / rank-block / scan-block edges, garbage above len
    for &n in &[1usize, 2, 8, 9, 16, 17] {
        for res in 0..64usize {
            let class = r.below(9);
            let mut ws = gen_words(r, n, class);
            if r.chance(1, 2) {
                // garbage in the last used word and surplus words
                let last = ws.len() - 1;
                ws[last] |= r.next_u64();
            }
            let extra = r.usize_below(3);
            for _ in 0..extra {
                ws.push(if r.chance(1, 2) { u64::MAX } else { r.next_u64() });
            }
            let len = (n - 1) * 64 + res;
            let rate = pick_rate(r);
            let ops = ops_for(r, &ws, len, rate, 2);
            emit_bv(emit, &ws, len, rate, &ops);
        }
    }

    // (b) every listed sample rate on vectors with enough ones to have several samples
    for &rate in &RATES {
        for class in [0u64, 1, 2, 3] {
            let n = r.range(20, if quick { 120 } else { 600 }) as usize;
            let ws = gen_words(r, n, class);
            let len = pick_len(r, n);
            let ops = ops_for(r, &ws, len, rate, 6);
            emit_bv(emit, &ws, len, rate, &ops);
        }
    }

    // (c) main random stream over all classes
    let rounds = if quick { 2_400 } else { 8_000 };
    for i in 0..rounds {
        let class = (i % 9) as u64;
        let n = pick_n(r, max_n);
        let mut ws = gen_words(r, n, class);
        let len = pick_len(r, n);
        // stray bits above len: half of the time force garbage there
        if r.chance(1, 2) {
            for (j, w) in ws.iter_mut().enumerate() {
                if j * 64 >= len {
                    *w = if r.chance(1, 2) { u64::MAX } else { r.next_u64() };
                } else if (j + 1) * 64 > len {
                    *w |= r.next_u64() << (len - j * 64);
                }
            }
        }
        let rate = pick_rate(r);
        let budget = if n > 200 { 12 } else { 5 };
        let ops = ops_for(r, &ws, len, rate, budget);
        emit_bv(emit, &ws, len, rate, &ops);
    }

    // (d) long zero runs between two ones: run length crossing exactly 1..=5 scan blocks, started at
    //     every offset within a block; sample rates 1 and default so select jumps land before the run
    for blocks in 1..=5usize {
        for off in 0..8usize {
            let n = off + 1 + blocks * 8 + r.usize_below(8) + 2;
            let mut ws = vec![0u64; n];
            ws[off] = 1u64 << r.below(64);
            let far = (off + 1 + blocks * 8 + r.usize_below(n - (off + 1 + blocks * 8))).min(n - 1);
            ws[far] |= (1u64 << r.below(64)) | (1u64 << r.below(64));
            let len = if r.chance(1, 2) { n * 64 } else { n * 64 - r.usize_below(64) };
            let rate = *r.pick(&[1u32, 2, 256, 0]);
            let ops = ops_for(r, &ws, len, rate, 3);
            emit_bv(emit, &ws, len, rate, &ops);
        }
    }

    // (e) malformed: len beyond capacity must panic on both sides
    for _ in 0..(if quick { 40 } else { 400 }) {
        let n = r.usize_below(6);
        let class = r.below(9);
        let ws = gen_words(r, n, class);
        let len = match r.below(4) {
            0 => n * 64 + 1,
            1 => n * 64 + 64,
            2 => usize::MAX,
            _ => n * 64 + 1 + r.usize_below(1000),
        };
        let rate = pick_rate(r);
        emit_bv(emit, &ws, len, rate, "c1,c0,r1:0,s1:0,g:0");
    }
}
