//! Generates the property-module registry: every `src/cNN.rs` is a module exposing
//! `gen`, `exec` and `tables` (see src/c02.rs). No central list to edit.
use std::{env, fs, path::Path};

fn main() {
    let src = Path::new(&env::var("CARGO_MANIFEST_DIR").unwrap()).join("src");
    let mut mods: Vec<String> = fs::read_dir(&src)
        .unwrap()
        .filter_map(|e| e.ok())
        .filter_map(|e| e.file_name().into_string().ok())
        .filter(|n| {
            let b = n.as_bytes();
            n.len() == 6 && b[0] == b'c' && b[1].is_ascii_digit() && b[2].is_ascii_digit() && n.ends_with(".rs")
        })
        .map(|n| n[..3].to_string())
        .collect();
    mods.sort();
    let mut out = String::new();
    for m in &mods {
        out.push_str(&format!("#[path = \"{}/{m}.rs\"]\npub mod {m};\n", src.display()));
    }
    out.push_str("pub fn registry() -> Vec<(&'static str, crate::GenFn, crate::ExecFn, crate::TablesFn)> {\n    vec![\n");
    for m in &mods {
        out.push_str(&format!(
            "        (\"{}\", {m}::gen as crate::GenFn, {m}::exec as crate::ExecFn, {m}::tables as crate::TablesFn),\n",
            m.to_uppercase()
        ));
    }
    out.push_str("    ]\n}\n");
    fs::write(Path::new(&env::var("OUT_DIR").unwrap()).join("registry.rs"), out).unwrap();
    println!("cargo:rerun-if-changed=src");
    println!("cargo:rerun-if-changed=build.rs");
}
