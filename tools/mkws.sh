#!/bin/sh
# tools/mkws.sh <id> — private workspace for building one property family:
#   /tmp/ws/<id>/verif  (git worktree of /verif, branch ws-<id>)
#   /tmp/ws/<id>/repo   (git worktree of /repo,  branch ws-<id>)
set -e
ID="$1"; WS=/tmp/ws/$ID
mkdir -p /tmp/ws
git -C /verif worktree add -q -b "ws-$ID" "$WS/verif" HEAD
git -C /repo worktree add -q -b "ws-$ID" "$WS/repo" HEAD
sed -i "s#path = \"/repo\"#path = \"$WS/repo\"#" "$WS/verif/harness/Cargo.toml"
git -C "$WS/verif" update-index --assume-unchanged harness/Cargo.toml
echo "$WS"
