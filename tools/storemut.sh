#!/bin/sh
# tools/storemut.sh <id> <name> — copy a finished candidate (/tmp/mut/<id>.out) into seeded/<name>/
ID="$1"; NAME="$2"; O=/tmp/mut/$ID.out; D=/verif/seeded/$NAME
[ -f "$O/patch.diff" ] && [ -f "$O/meta.json" ] || { echo "incomplete $O"; exit 2; }
mkdir -p "$D"
cp "$O/patch.diff" "$O/meta.json" "$D/"
[ -f "$O/mutant_demo.rs" ] && cp "$O/mutant_demo.rs" "$D/"
[ -f "$O/demo.sh" ] && cp "$O/demo.sh" "$D/"
[ -f "$O/verify.json" ] && cp "$O/verify.json" "$D/"
ls "$D"
