#!/usr/bin/env python3
"""tools/seedrun.py <seed-id> [Cxx …] — apply /verif/seeded/<seed-id>/patch.diff to /repo, run the
quick check of the property it targets (or the listed ones), undo the change straight afterwards.
Records what each check reported in seeded/<seed-id>/result.json."""
import json, os, subprocess, sys, time
ROOT = os.path.dirname(os.path.dirname(os.path.abspath(__file__)))
sid = sys.argv[1]
d = os.path.join(ROOT, "seeded", sid)
meta = json.load(open(os.path.join(d, "meta.json")))
props = sys.argv[2:] or [meta["property"]]
tier = os.environ.get("SEED_TIER", "quick")
st = subprocess.run(["git", "-C", "/repo", "status", "--porcelain"], capture_output=True, text=True).stdout.strip()
if st:
    sys.exit(f"/repo is not clean:\n{st}")
res = {}
patch = os.path.join(d, "patch.diff")
if subprocess.call(["git", "-C", "/repo", "apply", patch], stderr=subprocess.DEVNULL) != 0:
    # the seed was written against an older /repo main (before later `fix:` commits): merge it
    if subprocess.call(["git", "-C", "/repo", "apply", "--3way", patch], stderr=subprocess.DEVNULL) != 0:
        subprocess.call(["git", "-C", "/repo", "reset", "-q", "--hard"])
        sys.exit(f"{sid}: patch no longer applies to /repo main")
    subprocess.check_call(["git", "-C", "/repo", "reset", "-q"])
try:
    for p in props:
        evp = os.path.join(ROOT, "evidence", f"{p}.json")
        saved = open(evp).read() if os.path.exists(evp) else None
        t0 = time.time()
        r = subprocess.run([os.path.join(ROOT, "check"), p, "--tier", tier], cwd=ROOT, capture_output=True, text=True)
        viol = [l for l in r.stdout.split("\n") if l.startswith("VIOLATION")]
        res[p] = {"rc": r.returncode, "violation_lines": viol, "wall_s": round(time.time() - t0, 1),
                  "stderr_tail": r.stderr[-600:]}
        print(p, "rc=", r.returncode, viol[:2])
        if saved is not None:      # evidence files describe the unchanged tree only
            open(evp, "w").write(saved)
        for v in viol[:1]:
            path = v.split("replay=")[1].split(" ")[0]
            if os.path.exists(path):
                res[p]["replay"] = json.load(open(path))
finally:
    subprocess.check_call(["git", "-C", "/repo", "checkout", "--", "."])
json.dump({"tier": tier, "results": res}, open(os.path.join(d, f"result-{tier}.json"), "w"), indent=1)
