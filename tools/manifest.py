#!/usr/bin/env python3
"""Regenerate MANIFEST.json from tools/props.py (single source of truth for what is claimed)."""
import json, os, subprocess, sys
ROOT = os.path.dirname(os.path.dirname(os.path.abspath(__file__)))
sys.path.insert(0, os.path.join(ROOT, "tools"))
import props as P

ALL = [json.loads(l)["id"] for l in open(os.path.join(ROOT, "properties.jsonl"))]
hooks = subprocess.check_output(["git", "-C", "/repo", "log", "--format=%H %s"], text=True).strip().split("\n")
hook_commits = [l.split(" ")[0] for l in hooks if l.split(" ", 1)[1].startswith("verif-hooks")]
checks = []
for pid in ALL:
    if pid not in P.PROPS or P.PROPS[pid].get("unclaimed"):
        continue
    c = P.PROPS[pid]
    checks.append({
        "property_id": pid,
        "quick_cmd": f"./check {pid} --tier quick",
        "thorough_cmd": f"./check {pid} --tier thorough",
        "evidence_file": f"/verif/evidence/{pid}.json",
        "replay_cmd_template": f"./check {pid} --replay {{path}}",
        "engine": "lean4-proof+correspondence",
        "level_claimed": {"category": c["level"], "text": c["level_text"], "design_ref": f"DESIGN.md §5 {pid}"},
        "level_note": c["level_note"],
        "technique": c["technique"],
    })
na = [{"property_id": pid, "reason": P.NOT_APPLICABLE.get(pid, "not yet built: model/theorem/correspondence for this property are still under construction (see DESIGN.md §5/§8)")}
      for pid in ALL if pid not in [c["property_id"] for c in checks]]
m = {
    "version": 1,
    "setup_cmd": "./check --setup",
    "hooks": {
        "guard": "cargo feature verif-hooks",
        "enable": "harness/Cargo.toml depends on succinctly with features=[\"verif-hooks\"]; CLI built with --features cli,verif-hooks",
        "baseline_off_cmd": "cd /repo && cargo test --workspace --no-fail-fast --offline",
        "source_commits": hook_commits,
        "add_only": True,
    },
    "engines": [{"name": "lean4-proof+correspondence", "path": "/verif/check",
                 "serves_properties": [c["property_id"] for c in checks],
                 "kind_free_text": "Lean 4 theorems over a model (partly regenerated from source by tools/extract.py) + differential correspondence check of the Rust implementation against the model's compiled driver"}],
    "checks": checks,
    "not_applicable": na,
    "notes": "See DESIGN.md. Every check rebuilds the harness from /repo's working tree (cargo, hooks on), regenerates lean/SuccinctlyVerif/Generated, rebuilds the property's theorem module (lake) and audits axioms before running the correspondence.",
}
json.dump(m, open(os.path.join(ROOT, "MANIFEST.json"), "w"), indent=1)
print(f"{len(checks)} checks, {len(na)} not claimed")
