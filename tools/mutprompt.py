#!/usr/bin/env python3
"""Print the prompt for a mutant-writing agent: property text only + its scratch worktree."""
import json, sys
pid = sys.argv[1]
suffix = sys.argv[2] if len(sys.argv) > 2 else ""
avoid = sys.argv[3] if len(sys.argv) > 3 else ""
wt = f"/tmp/mut/{pid}{suffix}"
for l in open("/verif/properties.jsonl"):
    d = json.loads(l)
    if d["id"] == pid:
        break
prop = json.dumps({k: d[k] for k in ("id", "title", "statement", "quantifier", "why_tests_cant", "anchors")}, indent=1)
AVOID = (f"Another engineer has already tried a change in {avoid}; choose a DIFFERENT function / mechanism from the property's anchors (ideally a different source file). " if avoid else "")
print(f"""You are testing how well a semantic property of the Rust library rust-works/succinctly (succinct data structures: rank/select bitvectors, balanced parentheses, Elias-Fano; SIMD JSON/YAML/DSV semi-indexing; jq/yq interpreter and CLI) is protected. You have your own scratch git worktree of the repository at {wt} (work ONLY there; never touch /repo, /verif or any other directory except {wt} and {wt}.out). The sandbox has no network; cargo works offline (always pass --offline). 16 cores are shared with other jobs: use `-j 4`.

The property (this is everything you are given about it):

{prop}

Your task: write ONE realistic change to the library's source code (under {wt}/src) that BREAKS this property while (a) the crate still compiles, including `cargo build --offline --features cli` and (b) the repository's existing test-suite still passes: `cd {wt} && cargo test --workspace --no-fail-fast --offline -j 4` (default features; ~4200 tests; first build takes several minutes — use `CARGO_TARGET_DIR={wt}/target`). The change should look like something a maintainer could plausibly commit (an optimisation, a refactor, a boundary tweak, a "simplification", a changed constant/table entry/mask/shift, a reordered condition, an off-by-one at a block/chunk/word boundary, a missing clamp, a wrong branch for a rare configuration), NOT a blatant sabotage that ordinary use would expose at once. {AVOID}Prefer a change that needs something specific to manifest: a particular input shape (long runs, a value straddling a 64-bit word / 512-bit block / 16- or 32-byte SIMD chunk boundary, a rare byte, a duplicate, an extreme number), a non-default configuration (sample rate, cargo feature, SIMD level, CLI flag), a multi-step sequence of operations (a cursor/cache history), or two cooperating sites that each look fine alone. Do not edit tests, benches, docs or Cargo.toml features; do not touch src/verif_hooks.rs or anything guarded by the `verif-hooks` feature; keep the diff small (ideally < 30 changed lines).

Also write a DEMONSTRATION: a small Rust integration test file ({wt}/tests/mutant_demo.rs) or a small shell script driving the built CLI, which PASSES on the unmodified code and FAILS with your change, by checking the property directly on a concrete input (compare with a naive computation or a known-correct expected value).

Procedure: 1. read the anchored code; 2. make the change; 3. confirm it compiles and the full existing test-suite passes (if an existing test fails, choose a different change — do not edit the test); 4. confirm the demonstration fails with the change and passes without it (`git stash` / `git stash pop`, or `git diff > p.diff; git checkout -- src; …; git apply p.diff`). 5. Write into {wt}.out/: `patch.diff` (output of `git -C {wt} diff -- src`, source change only, no demo), the demonstration file (`mutant_demo.rs` or `demo.sh`), and `meta.json` with keys: property ("{pid}"), summary (one sentence: what was changed), needs (what specific input/configuration/sequence is needed for the breakage to manifest), files (list of changed files), demo_cmd (exact command to run the demonstration from the worktree root), tests_cmd (the test-suite command you ran) and tests_result (e.g. "4190 passed, 0 failed"), demo_with_patch ("fails: …"), demo_without_patch ("passes"). Leave the worktree with your change applied. Finish by replying with the content of meta.json and the diff.""")
