#!/bin/sh
# tools/verify_mutant.sh <id> — confirm a candidate seeded change in its scratch worktree /tmp/mut/<id>:
#   compiles (default + cli), existing test-suite passes with the change, demonstration fails with
#   the change and passes without it. Writes /tmp/mut/<id>.out/verify.json. Nothing touches /repo.
ID="$1"; WT=/tmp/mut/$ID; OUT=/tmp/mut/$ID.out
export CARGO_TARGET_DIR=$WT/target CARGO_NET_OFFLINE=true
cd "$WT" || exit 2
[ -f "$OUT/patch.diff" ] || { echo "no patch"; exit 2; }
git checkout -q -- src 2>/dev/null
git apply "$OUT/patch.diff" || { echo "patch does not apply"; exit 2; }
DEMO=$(python3 -c "import json;print(json.load(open('$OUT/meta.json'))['demo_cmd'])")
[ -f "$OUT/mutant_demo.rs" ] && cp "$OUT/mutant_demo.rs" tests/mutant_demo.rs
[ -f "$OUT/demo.sh" ] && cp "$OUT/demo.sh" demo.sh && chmod +x demo.sh
cargo build --offline --features cli -j 8 >"$OUT/v_build.log" 2>&1; B=$?
# the suite must pass with the change, excluding the demonstration itself
mv tests/mutant_demo.rs /tmp/mut/$ID.demo.rs 2>/dev/null
cargo test --workspace --no-fail-fast --offline -j 8 >"$OUT/v_tests.log" 2>&1; T=$?
mv /tmp/mut/$ID.demo.rs tests/mutant_demo.rs 2>/dev/null
sh -c "$DEMO" >"$OUT/v_demo_with.log" 2>&1; DW=$?
git checkout -q -- src
sh -c "$DEMO" >"$OUT/v_demo_without.log" 2>&1; DO=$?
git apply "$OUT/patch.diff"
PASSED=$(grep -h "^test result" "$OUT/v_tests.log" | awk '{p+=$4; f+=$6} END {print p" passed, "f" failed"}')
printf '{"build_rc":%d,"tests_rc":%d,"tests":"%s","demo_with_patch_rc":%d,"demo_without_patch_rc":%d}\n' $B $T "$PASSED" $DW $DO | tee "$OUT/verify.json"
[ $B -eq 0 ] && [ $T -eq 0 ] && [ $DW -ne 0 ] && [ $DO -eq 0 ]
