#!/bin/sh
# tools/mkmut.sh <id> — scratch worktree of /repo for a mutant-writing agent (nothing from /verif).
set -e
ID="$1"; D=/tmp/mut/$ID
mkdir -p /tmp/mut
git -C /repo worktree add -q --detach "$D" HEAD
mkdir -p "$D.out"
echo "$D"
