"""C12 — line/column mapping (LineIndex) is exact and independent of query history."""

EXTRACT = {
    "consts": [
        ("FORWARD_WALK_CAP", "src/text/lines.rs", "FORWARD_WALK_CAP"),
    ],
}


def _c12_nontrivial(req, out):
    # a history is non-trivial when the text has at least one line break and at least two queries
    t = req.split(" ")
    if len(t) < 5 or t[1] != "run":
        return False
    return ("0a" in t[3] or "0d" in t[3]) and "," in t[4]


def _c12_shrink(req):
    """Candidates: drop one query / halve the query list / drop a text byte (keeps offsets as they are)."""
    t = req.split(" ")
    if len(t) != 5 or t[1] != "run":
        return
    qs = [] if t[4] == "-" else t[4].split(",")
    n = len(qs)
    if n > 1:
        for half in (qs[: n // 2], qs[n // 2:]):
            yield " ".join(t[:4] + [",".join(half)])
        for i in range(min(n, 40)):
            rest = qs[:i] + qs[i + 1:]
            yield " ".join(t[:4] + [",".join(rest) if rest else "-"])
    text = "" if t[3] == "-" else t[3]
    nb = len(text) // 2
    if nb > 0:
        for cut in (nb // 2, 1):
            if cut:
                yield " ".join(t[:3] + [text[: 2 * (nb - cut)] or "-", t[4]])


CFG = {
    "level": "proof",
    "level_text": "Lean 4 theorems over a line-by-line model of LineIndex (build loop, one-entry cache, forward walk for "
                  "EVERY walk cap, predecessor fallback, u32 clamps, wrapping usize arithmetic): the cache invariant is "
                  "preserved by every public call; every answer equals the stateless naive look-behind scan of the text; "
                  "lifted by induction to arbitrary query histories from any invariant-satisfying cache state "
                  "(history_irrelevant); to_offset (checked_add, every line and column), line_start, line_count exact; "
                  "in-bounds round trip. Only exclusion: to_line_column at offset = usize::MAX, whose column on a "
                  "one-line text (2^64) is not representable (theorems require offset < 2^64 - 1).",
    "level_note": "ASSUMES C03: the Elias-Fano `starts` sequence is modelled abstractly as the List Nat it encodes, with "
                  "EliasFano::len/get/predecessor given by their plain-list meaning (length, xs[i]?, last index whose element "
                  "is <= v); their exactness on the real structure is property C03, not re-proved here (the correspondence "
                  "check does run the real EliasFano underneath LineIndex). FORWARD_WALK_CAP is regenerated from source and "
                  "only instantiates theorems proved for every cap. Texts > u32::MAX bytes (documented panic) are modelled "
                  "but cannot be exercised. Trusts Lean kernel and the differential harness.",
    "technique": "Lean 4 proof (invariant + induction over query histories) over a hand model; differential correspondence "
                 "of whole query histories vs the compiled model, cross-checked per query against the naive spec",
    "variants": [{"features": []}],
    "lean_modules": ["SuccinctlyVerif.Props.C12"],
    "lean_files": ["SuccinctlyVerif/Props/C12.lean", "SuccinctlyVerif/Proof/Lines.lean",
                   "SuccinctlyVerif/Model/Lines.lean", "SuccinctlyVerif/Spec/Lines.lean"],
    "generated": ["C12:"],
    "required_theorems": ["SV.Props.C12.history_irrelevant", "SV.Props.C12.cache_inv_step",
                          "SV.Props.C12.answer_exact", "SV.Props.C12.round_trip",
                          "SV.Props.C12.to_offset_exact"],
    "nontrivial": _c12_nontrivial,
    "shrink": _c12_shrink,
    "rule": "request = one text + one whole query history on one index; distinct request lines whose text contains a "
            "line break and whose history has at least two queries",
    "explanation": "Lean theorems: model answers = naive scan for every text, every cache state satisfying the invariant "
                   "and every query history (any walk cap); correspondence: LineIndex (and the same mapping through "
                   "JsonIndex / YamlIndex to_line_column/to_offset) on generated CR/LF-rich texts with histories mixing "
                   "forward walks below/above the cap, backward jumps, repeats, offsets at/after the end and beyond u32",
}
