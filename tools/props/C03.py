"""C03 — Elias–Fano sequences answer exactly under any access history."""

EXTRACT = {
    "consts": [
        # (lean name, file, rust const name)
        ("EF_SELECT_SAMPLE_RATE", "src/bits/elias_fano.rs", "SELECT_SAMPLE_RATE"),
    ],
}


def _c03_nontrivial(req, out):
    # a session is non-trivial when the sequence has at least two elements and at least one operation
    t = req.split(" ")
    return len(t) == 4 and "," in t[2] and t[3] != "-"


def _c03_shrink(req):
    """Candidates: drop operations (halves, then single ops), then drop sequence elements."""
    t = req.split(" ")
    if len(t) != 4:
        return
    seq = [] if t[2] == "-" else t[2].split(",")
    ops = [] if t[3] == "-" else t[3].split(",")

    def line(s, o):
        return f"C03 run {','.join(s) if s else '-'} {','.join(o) if o else '-'}"

    n = len(ops)
    if n > 1:
        yield line(seq, ops[: n // 2])
        yield line(seq, ops[n // 2:])
    for i in range(min(n, 60)):
        yield line(seq, ops[:i] + ops[i + 1:])
    m = len(seq)
    if m > 1:
        yield line(seq[: m // 2], ops)
        yield line(seq[m // 2:], ops)
    for i in range(min(m, 60)):
        yield line(seq[:i] + seq[i + 1:], ops)


CFG = {
    "level": "proof",
    "level_text": "Lean 4 theorems over a line-by-line model of src/bits/elias_fano.rs (build, select1 over the shared "
                  "scan, read_low_bits incl. the two-word straddle, get, predecessor, cursor/cursor_from, the cursor "
                  "state machine, the iterator), for every sample rate >= 1 and every non-decreasing u32 sequence: "
                  "no operation panics; len/universe/get/predecessor/iteration equal the plain sequence; the cursor "
                  "invariant is established by cursor/cursor_from, preserved by every operation, and by induction "
                  "every finite operation history is observed (return value, current, index, is_exhausted) exactly "
                  "as on the plain sequence, for ALL operation lists and all arguments (advance_by saturates idx + k; "
                  "the former wrap-around was repaired, see known_findings fixed list). One exact side condition "
                  "(HighFits): the high-bit vector has at most 2^32 positions, implied by len <= 1 431 655 744; "
                  "beyond it `global_pos as u32` truncates a select sample and get() is wrong - known finding F12. Tie: "
                  "SELECT_SAMPLE_RATE re-extracted from source each run and every operation diffed against the "
                  "compiled model on generated sequences and cursor histories.",
    "level_note": "Trusts the Lean kernel, the hand-written model's fidelity (checked differentially, with the "
                  "plain-sequence oracle also run in-process by the harness), the modelled core primitives "
                  "(count_ones, trailing_zeros, leading_zeros) and that select_in_word equals its spec (property C02). "
                  "usize arithmetic other than advance_by's saturating `idx + k` is modelled unbounded (all such values are "
                  "< 3*len + 64).",
    "technique": "Lean 4 proof (refinement invariant + induction over operation lists); differential correspondence vs compiled model",
    "variants": [{"features": []}],
    "lean_modules": ["SuccinctlyVerif.Props.C03"],
    "lean_files": ["SuccinctlyVerif/Props/C03.lean", "SuccinctlyVerif/Proof/EliasFano.lean",
                   "SuccinctlyVerif/Proof/EliasFanoWord.lean", "SuccinctlyVerif/Proof/EliasFanoLow.lean",
                   "SuccinctlyVerif/Proof/EliasFanoBuild.lean", "SuccinctlyVerif/Proof/EliasFanoSelect.lean",
                   "SuccinctlyVerif/Proof/EliasFanoPred.lean", "SuccinctlyVerif/Proof/EliasFanoCursor.lean",
                   "SuccinctlyVerif/Proof/EliasFanoHistory.lean", "SuccinctlyVerif/Proof/Scan.lean",
                   "SuccinctlyVerif/Model/EliasFano.lean", "SuccinctlyVerif/Model/Scan.lean",
                   "SuccinctlyVerif/Spec/EliasFano.lean"],
    "required_theorems": ["SV.Props.C03." + t for t in (
        "build_total", "len_eq", "universe_eq", "get_eq", "predecessor_eq", "predecessor_none_iff",
        "predecessor_some", "iter_eq", "inv_init_cursor", "inv_init_cursor_from", "inv_out_step",
        "observe_eq", "cursor_history", "cursor_history_from", "cursor_history_generated",
        "highFits_of_length")],
    "generated": ["C03:"],
    "allow_bv_decide": False,
    "nontrivial": _c03_nontrivial,
    "shrink": _c03_shrink,
    "rule": "request = one Elias-Fano session (sequence + operation list); distinct request lines whose sequence has "
            ">= 2 elements and whose operation list is non-empty",
    "explanation": "Lean theorems: model answers = plain sequence for every non-decreasing input and every operation "
                   "history; correspondence: the real EliasFano/EliasFanoCursor/EliasFanoIter vs the compiled model, "
                   "with the plain-sequence oracle run in-process by the harness",
}
