"""C15 — yq never emits YAML it cannot read back."""
import os

_ROOT = os.path.dirname(os.path.dirname(os.path.dirname(os.path.abspath(__file__))))
_CLI = os.path.join(_ROOT, ".build", "target-cli", "release", "succinctly")


def _c15_nontrivial(req, out):
    # non-trivial: a non-empty string / document argument
    t = req.split(" ")
    return len(t) > 2 and t[2] != "-"


def _c15_canon(req, out):
    # a document/program pair the CLI itself rejects (`-o json` run fails) carries no obligation
    if out.startswith("SKIP-"):
        return "LOOP-OK"
    return out


EXTRACT = {
    # marker of the source revision of yaml_quote_string (1 = consults resolve_plain), derived by the
    # harness from the working tree's source text on every run (harness/src/c15.rs `tables`)
    "tables": ["C15_QUOTE_REV"],
}

CFG = {
    "level": "proof",
    "level_text": "Lean 4 theorems over a line-by-line model of the emitter's decision logic (yaml_quote_string / "
                  "yaml_quote_key / yaml_quote_string_with_style / yaml_double_quote_escaped / yaml_single_quote_escaped / "
                  "can_single_quote, streaming needs_yaml_quoting / stream_yaml_string_value) against a reader written "
                  "from YAML 1.2.2 (plain-scalar productions [126]-[133], core schema 10.3.2, escapes 5.7): every emitted "
                  "scalar text re-reads as the original string in block/flow value and key contexts; end-to-end loop "
                  "(documents x write programs x --indent) is translation validation through the CLI.",
    "level_note": "Reader is lenient about c-printable (the loader is; checked by the re-read oracle). resolve_plain is "
                  "modelled over modelled core parsers (i64/f64 grammar + finiteness). stream_unquoted_reread_partial assumes "
                  "the decoded value of a source plain scalar is itself one-line plain-safe (checked by sloop/ssv, not proved). "
                  "alias_sound is proved for anchor tables with no mark below an alias node (necessary for the pass as a function: "
                  "alias_sound_needs_opaque, replayed on the real function); tables built from documents do carry such marks and "
                  "rely on a mirror invariant outside the model. emit_load_partial covers nested block mappings with string leaves "
                  "at token-line level (sequences, flow, block scalars, comments, line tokenisation: CLI loop only). "
                  "resolve_plain = core schema is proved on every text outside the explicit deviations (i64/f64 overflow).",
    "technique": "Lean 4 proof (induction over strings) + differential correspondence (decision functions via CLI hook "
                 "server and library hooks, in-process re-read oracle, CLI end-to-end loop)",
    "variants": [{"features": [], "env": {"SV_CLI": _CLI}}],
    "needs_cli": True,
    "lean_modules": ["SuccinctlyVerif.Props.C15"],
    "lean_files": ["SuccinctlyVerif/Props/C15.lean", "SuccinctlyVerif/Proof/YamlEmit.lean",
                   "SuccinctlyVerif/Proof/YamlAnchor.lean", "SuccinctlyVerif/Proof/YamlResolve.lean",
                   "SuccinctlyVerif/Proof/YamlBlock.lean", "SuccinctlyVerif/Proof/YamlBlockScalar.lean",
                   "SuccinctlyVerif/Model/YamlEmit.lean",
                   "SuccinctlyVerif/Model/YamlAnchor.lean", "SuccinctlyVerif/Model/YamlBlock.lean",
                   "SuccinctlyVerif/Spec/YamlScalar.lean"],
    "generated": ["C15"],
    "required_theorems": ["SV.Props.C15.current_is_fixed", "SV.Props.C15.double_quote_reread",
                          "SV.Props.C15.single_quote_reread", "SV.Props.C15.plain_reread",
                          "SV.Props.C15.scalar_reread", "SV.Props.C15.key_reread",
                          "SV.Props.C15.stream_smart_quoted_reread", "SV.Props.C15.stream_string_value_reread",
                          "SV.Props.C15.indent_step_positive", "SV.Props.C15.current_source_reread",
                          "SV.Props.C15.alias_sound", "SV.Props.C15.alias_sound_needs_opaque",
                          "SV.Props.C15.stream_alias_unsound_redeclared", "SV.Props.C15.stream_alias_unsound_navigation",
                          "SV.Props.C15.resolve_plain_is_core_schema", "SV.Props.C15.scalar_reread_core",
                          "SV.Props.C15.emit_load_partial", "SV.Props.C15.emit_load_indent_partial",
                          "SV.Props.C15.block_scalar_indicator_reread"],
    "nontrivial": _c15_nontrivial,
    "canon": _c15_canon,
    "rule": "request = one decision-function call on a string (quote/resolve, with style, context, indent) or one "
            "document (x program x indent) loop; distinct request lines with a non-empty string/document",
    "explanation": "Lean theorems: quoted / plain output of every modelled decision function re-reads as the input string; "
                   "correspondence: Rust decision functions = model text on adversarial strings, real loader re-reads the "
                   "text (REREAD oracle), in-process streaming loop and CLI loop on generated documents x write programs x indent",
    "trusted_base": ["C15: Rust core str::parse::<i64>/<f64>, i64::from_str_radix, str::to_lowercase, char::is_ascii_control as modelled in Model/YamlEmit.lean",
                     "C15: the loader's handling of one-scalar documents is tied to Spec/YamlScalar only through the re-read oracle"],
}
