"""C26 — yq results do not depend on the input's syntax."""
import os

_ROOT = os.path.dirname(os.path.dirname(os.path.dirname(os.path.abspath(__file__))))
_CLI = os.path.join(_ROOT, ".build", "target-cli", "release", "succinctly")


def _canon(req, out):
    # the output hash is informative; agreement is SAME vs DIFF
    return "SAME" if out.startswith("SAME") else out


CFG = {
    "level": "translation_validation",
    "level_text": "Translation validation: for every request the Lean driver establishes that the block-YAML, flow-YAML and JSON "
                  "inputs denote the same tree (loadRef on both YAML renderings, a JSON reader on the JSON; theorems "
                  "yaml_renderings_same_tree / yaml_syntax_irrelevant (from C14's render_load) prove the YAML side for every "
                  "admissible rendering, the JSON reader's round trip is evaluated per request); the evaluator's independence of the presentation is tied, not proved: `succinctly yq -o json` is "
                  "run on the three inputs with the same generated presentation-blind program and exit code + stdout must be "
                  "byte-identical.",
    "level_note": "Streams showing a presentation feature with a recorded C14 loader finding are not generated here "
                  "(they are counted under C14).",
    "technique": "differential execution of the CLI on three renderings of one proved-equal tree",
    "variants": [{"features": [], "env": {"SV_CLI": _CLI}}],
    "needs_cli": True,
    "lean_modules": ["SuccinctlyVerif.Props.C26"],
    "lean_files": ["SuccinctlyVerif/Props/C26.lean", "SuccinctlyVerif/Proof/YamlRefDocs.lean"],
    "required_theorems": ["SV.Props.C26.yaml_renderings_same_tree", "SV.Props.C26.yaml_syntax_irrelevant"],
    "generated": [],
    "canon": _canon,
    "rule": "request = one tree (24 generated sub-trees) in three renderings x five programs applied to every sub-tree (3 CLI runs); "
            "nav request = one tree carrying integers around 2^53, at both ends of the i64 range and 10^15..10^18, one navigation "
            "(streamable) or evaluator program, 4 CLI runs (block YAML, flow YAML, JSON on stdin with -p json, JSON as a *.json file)",
    "explanation": "yq -o json output (exit code + stdout) identical for JSON, block YAML and flow YAML input of the same tree",
}
