"""C17 — YAML position tables (AdvancePositions / EndPositions) under any access order."""


def _c17_nontrivial(req, out):
    # a request is non-trivial when it carries at least 2 positions and at least 2 lookups
    t = req.split(" ")
    if len(t) < 7:
        return False
    return ("," in t[4] or "," in t[5]) and "," in t[-1 if not t[-1].startswith("CLASS:") else -2]


EXTRACT = {
    "consts": [
        ("YAML_SELECT_SAMPLE_RATE", "src/yaml/advance_positions.rs", "SELECT_SAMPLE_RATE"),
    ],
}

CFG = {
    "level": "proof",
    "level_text": "Lean 4 theorems over a line-by-line model of AdvancePositions / CompactEndPositions / OpenPositions / "
                  "EndPositions (build loops, cumulative ranks, select samples, SequentialCursor with its three get "
                  "paths): SeqInv preserved by every path (inv_step), answers independent of arbitrary lookup lists "
                  "(history_irrelevant), end_get_spec in full (own end / last earlier non-zero end / None, both variants), "
                  "open_get_exact_partial: start positions exact for every history EXCEPT a position equal to text_len "
                  "when text_len % 64 == 0 -- there the full statement is refuted on the model (finding F4, "
                  "open_get_exact_full_statement_false). Not covered by theorems (correspondence only): "
                  "find_last_open_at_text_pos, AdvancePositionsCursor, YamlIndex BP rank glue. "
                  "Tie: differential correspondence incl. built tables and per-lookup cursor state.",
    "level_note": "Trusts Lean kernel, the hand-written model (tied by the differential harness incl. per-lookup cursor "
                  "state and built bitmaps), per-word primitives count_ones/select_in_word as parameters (C02). "
                  "u32 accumulators of build_cumulative_rank modelled unbounded.",
    "technique": "Lean 4 proof (state-machine invariant + induction over arbitrary lookup lists); differential correspondence vs compiled model",
    "variants": [{"features": []}],
    "lean_modules": ["SuccinctlyVerif.Props.C17"],
    "lean_files": ["SuccinctlyVerif/Props/C17.lean", "SuccinctlyVerif/Proof/YamlPos.lean",
                   "SuccinctlyVerif/Model/YamlPos.lean", "SuccinctlyVerif/Model/Scan.lean"],
    "generated": ["common:", "C17:"],
    "required_theorems": ["SV.Props.C17." + n for n in (
        "seqInv_default", "inv_step", "history_irrelevant", "history_answers", "flavors_ok",
        "open_get_exact_partial", "open_get_exact_under_capacity", "open_get_exact_full_statement_false",
        "f4_witness", "end_get_spec", "end_inherited_le_start", "open_history_irrelevant", "sample_rate_pos")],
    "nontrivial": _c17_nontrivial,
    "rule": "request = (route, text_len, start positions, end positions, bp, lookup list); distinct request lines "
            "with at least two positions and at least two lookups",
    "explanation": "Lean theorems: SeqInv preserved by sequential/gap/random paths; get = history-free table function "
                   "for arbitrary lookup lists; table function = recorded positions (open, partial: F4) / end spec; "
                   "correspondence: hook constructors and YamlIndex::from_parts vs the compiled model on generated "
                   "position sequences and lookup orders, with per-lookup cursor state and an in-process plain-list oracle",
}
