"""C17 — YAML position tables (AdvancePositions / EndPositions) under any access order."""


def _c17_nontrivial(req, out):
    # a request is non-trivial when it carries at least 2 positions and at least 2 lookups
    t = req.split(" ")
    if len(t) < 7:
        return False
    return ("," in t[4] or "," in t[5]) and "," in t[-1 if not t[-1].startswith("CLASS:") else -2]


EXTRACT = {
    "consts": [
        ("YAML_SELECT_SAMPLE_RATE", "src/yaml/advance_positions.rs", "SELECT_SAMPLE_RATE"),
    ],
}

CFG = {
    "level": "proof",
    "level_text": "Lean 4 theorems over a line-by-line model of AdvancePositions / CompactEndPositions "
                  "(build loops, cumulative ranks, select samples, SequentialCursor with its three get paths): "
                  "cursor invariant preserved by every path, every answer equals the history-free table function, "
                  "which equals the recorded position (open: under p < 64*ceil(text_len/64), see finding F4; "
                  "end: own end / last earlier non-zero end / none); tie: differential correspondence incl. cursor state.",
    "level_note": "Trusts Lean kernel, the hand-written model (tied by the differential harness incl. per-lookup cursor "
                  "state and built bitmaps), per-word primitives count_ones/select_in_word as parameters (C02). "
                  "u32 accumulators of build_cumulative_rank modelled unbounded.",
    "technique": "Lean 4 proof (state-machine invariant + induction over arbitrary lookup lists); differential correspondence vs compiled model",
    "variants": [{"features": []}],
    "lean_modules": ["SuccinctlyVerif.Props.C17"],
    "lean_files": ["SuccinctlyVerif/Props/C17.lean", "SuccinctlyVerif/Proof/YamlPos.lean",
                   "SuccinctlyVerif/Model/YamlPos.lean", "SuccinctlyVerif/Model/Scan.lean"],
    "generated": ["common:", "C17:"],
    "nontrivial": _c17_nontrivial,
    "rule": "request = (route, text_len, start positions, end positions, bp, lookup list); distinct request lines "
            "with at least two positions and at least two lookups",
    "explanation": "Lean theorems: SeqInv preserved by sequential/gap/random paths; get = history-free table function "
                   "for arbitrary lookup lists; table function = recorded positions (open, partial: F4) / end spec; "
                   "correspondence: hook constructors and YamlIndex::from_parts vs the compiled model on generated "
                   "position sequences and lookup orders, with per-lookup cursor state and an in-process plain-list oracle",
}
