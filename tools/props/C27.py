"""C27 — query output does not depend on the evaluation route."""
import os

_ROOT = os.path.dirname(os.path.dirname(os.path.dirname(os.path.abspath(__file__))))
_CLI = os.path.join(_ROOT, ".build", "target-cli", "release", "succinctly")


def _canon(req, out):
    # `SAME <len> <hash>` -> `SAME` (length and digest are evidence only)
    return "SAME" if out.startswith("SAME") else out


def _nontrivial(req, out):
    # non-trivial when the runs produced output at all
    return not out.startswith("SAME 0 ")


CFG = {
    "level": "translation_validation",
    "level_text": "Each generated (document, navigation program, flags, tool) runs through the CLI on the default route "
                  "and with the materialised route forced (jq: verif-hooks switch on can_use_lazy_path and, for identity, "
                  "the neutral spelling `(.)|.`; yq: an unused --arg, which disables the M2 streaming fast paths); stdout and "
                  "exit code must be identical. Lean: in the printer model the streaming printer over a cursor "
                  "(first_child / next_sibling / value) equals the printer over the owned value (stream_eq_materialise); the three jq routes of the model print identical "
                  "bytes for every well-formed value and option set without --preserve-input (routes_agree).",
    "level_note": "The two evaluators are not modelled; the tie is differential. Classes other than `core` inject one "
                  "presentation feature each and are the class predicates of the recorded findings; `--indent 0` and raw "
                  "DEL (repaired findings) are part of `core`. Under --preserve-input only the neutral spelling is compared.",
    "technique": "differential run of the CLI routes + Lean structural-induction theorem on the printer model",
    "variants": [{"features": [], "env": {"SV_CLI": _CLI}}],
    "needs_cli": True,
    "lean_modules": ["SuccinctlyVerif.Props.C27"],
    "lean_files": ["SuccinctlyVerif/Props/C27.lean", "SuccinctlyVerif/Proof/JqCursor.lean", "SuccinctlyVerif/Proof/JqOutput.lean",
                   "SuccinctlyVerif/Model/JqOutput.lean"],
    "generated": [],
    "required_theorems": ["SV.Props.C27.stream_eq_materialise", "SV.Props.C27.stream_at_path",
                          "SV.Props.C27.routes_agree"],
    "canon": _canon,
    "nontrivial": _nontrivial,
    "rule": "request = (tool, flags, program, 1-12 documents) run on 2-3 routes; distinct request lines with non-empty output",
    "explanation": "default route vs forced materialised route (and `.` vs `(.)|.` for jq identity): byte-identical stdout and equal exit code",
}
