"""C32 — Simple-cursor JSON index navigates valid documents exactly."""


def _c32_nontrivial(req, out):
    t = req.split(" ")
    return len(t) > 4 and len(t[3]) >= 4 and t[4] != "-"


CFG = {
    "level": "proof",
    "level_text": "Lean 4 theorems over an executable model of SimpleJsonIndex built by the (proved engine-independent) "
                  "simple-cursor builder: for every document rendered from a JSON value tree with arbitrary RFC 8259 "
                  "whitespace — structural_positions / structural_pos / structural_count list exactly the { } [ ] , : "
                  "tokens outside strings in order (structural_list_eq); structural_index and structural_pos are mutually "
                  "inverse (index_pos_inverse); find_close at a container's open bracket returns its own close bracket "
                  "(find_close_eq); skip_value at a value's first byte returns the byte after its last (skip_value_eq). "
                  "Both quantify over Doc.occs, the enumeration of every value of the document with its token context "
                  "(doc_occs: each occupies a token segment and is followed by a non-number byte). "
                  "Tie: every model function is diffed against the Rust implementation on generated documents.",
    "level_note": "Callees taken at their proved specifications: select_in_word (C02), BalancedParens::find_close (C04), "
                  "simple-cursor index = reference (C05).",
    "technique": "Lean 4 proof over an executable model of SimpleJsonIndex; differential correspondence vs compiled model",
    "variants": [{"features": []}],
    "lean_modules": ["SuccinctlyVerif.Props.C32"],
    "lean_files": ["SuccinctlyVerif/Props/C32.lean", "SuccinctlyVerif/Proof/JsonSimple.lean",
                   "SuccinctlyVerif/Model/JsonSimple.lean", "SuccinctlyVerif/Spec/JsonSimple.lean"],
    "generated": ["C05:", "tables"],
    "allow_bv_decide": False,
    "nontrivial": _c32_nontrivial,
    "rule": "request = one document + a list of byte positions; distinct request lines with ≥ 2 document bytes and ≥ 1 position",
    "required_theorems": ["SV.Props.C32.structural_list_eq", "SV.Props.C32.index_pos_inverse",
                          "SV.Props.C32.find_close_eq", "SV.Props.C32.skip_value_eq"],
    "explanation": "Lean theorems: structural list, index/pos inverse, matching close bracket, value skipping for every "
                   "rendered JSON value tree; correspondence: SimpleJsonIndex::{build, structural_count, structural_positions, "
                   "structural_pos, structural_index, find_close, skip_value, children} vs the model at every byte position "
                   "of small documents and at every structural / value-start position (sampled) of large ones, plus a "
                   "malformed stream (mutations, truncations, token soup)",
}
