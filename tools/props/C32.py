"""C32 — Simple-cursor JSON index navigates valid documents exactly."""


def _c32_nontrivial(req, out):
    t = req.split(" ")
    return len(t) > 4 and len(t[3]) >= 4 and t[4] != "-"


CFG = {
    "level": "proof",
    "level_text": "PLACEHOLDER",
    "level_note": "Callees taken at their proved specifications: select_in_word (C02), BalancedParens::find_close (C04), "
                  "simple-cursor index = reference (C05).",
    "technique": "Lean 4 proof over an executable model of SimpleJsonIndex; differential correspondence vs compiled model",
    "variants": [{"features": []}],
    "lean_modules": ["SuccinctlyVerif.Props.C32"],
    "lean_files": ["SuccinctlyVerif/Props/C32.lean", "SuccinctlyVerif/Proof/JsonSimple.lean",
                   "SuccinctlyVerif/Model/JsonSimple.lean", "SuccinctlyVerif/Spec/JsonSimple.lean"],
    "generated": ["C05:", "tables"],
    "allow_bv_decide": False,
    "nontrivial": _c32_nontrivial,
    "rule": "request = one document + a list of byte positions; distinct request lines with ≥ 2 document bytes and ≥ 1 position",
    "explanation": "PLACEHOLDER",
}
