"""C22 — CSV/DSV formatting reads back through DSV input."""
import os

_ROOT = os.path.dirname(os.path.dirname(os.path.dirname(os.path.abspath(__file__))))


def _c22_nontrivial(req, out):
    t = req.split(" ")
    return len(t) == 4 and t[3] not in (".", "-")


CFG = {
    "level": "proof",
    "level_text": "Lean 4 theorems, full statement: csv_round_trip / csv_round_trip_unterminated / csv_comma_round_trip — for every "
                  "non-empty array of strings and every admissible delimiter the line printed by -r @dsv(d) (@csv for ','), with or "
                  "without the final newline, read back by the real reader model (DSV index + DsvRows/DsvFields cursor iteration over "
                  "rank/select + strip_quotes_and_decode) yields exactly that array; via decode_quote_field, fields_of_formatted and "
                  "C21 fields_eq (readDsv_eq_spec). Tie: the real CLI pipe, formatted text and rows read back diffed against the model.",
    "level_note": "Strings are modelled as their UTF-8 bytes (from_utf8_lossy is the identity on valid UTF-8; invalid input is outside "
                  "the model). Only arrays of strings are modelled (numbers/null/bool elements of @csv are outside C22). The CLI "
                  "tie feeds JSON arrays to `succinctly jq -r '@csv'|'@dsv(\"d\")'`, pipes stdout unchanged into "
                  "`succinctly jq --input-dsv d -c 'map(explode)'`; sentinel arrays delimit the batched cases.",
    "technique": "Lean 4 proof of the format/read round trip through the cursor reader model; CLI pipe "
                 "(`jq -r @csv|@dsv(d)` into `jq --input-dsv d`) diffed against the compiled model",
    "needs_cli": True,
    "variants": [{"features": [], "env": {"SV_CLI": os.path.join(_ROOT, ".build", "target-cli", "release", "succinctly")}}],
    "lean_modules": ["SuccinctlyVerif.Props.C22"],
    "required_theorems": ["SV.Props.C22.csv_round_trip", "SV.Props.C22.csv_round_trip_unterminated", "SV.Props.C22.decode_quote_field"],
    "allow_bv_decide": True,
    "lean_files": ["SuccinctlyVerif/Props/C22.lean", "SuccinctlyVerif/Proof/DsvCsv.lean", "SuccinctlyVerif/Proof/DsvNavModel.lean", "SuccinctlyVerif/Proof/DsvRank.lean", "SuccinctlyVerif/Model/DsvCsv.lean", "SuccinctlyVerif/Model/DsvNav.lean", "SuccinctlyVerif/Spec/Dsv.lean"],
    "generated": ["common:"],
    "nontrivial": _c22_nontrivial,
    "rule": "distinct request lines whose array has at least one non-empty string",
    "explanation": "Lean theorems: format/read round trip through the cursor reader for all arrays (>=1 strings) and admissible delimiters; "
                   "correspondence: `succinctly jq -r @csv / @dsv(d)` piped to `succinctly jq --input-dsv d` on arrays of 1..20 strings "
                   "with delimiters, quotes, CR/LF, spaces, non-ASCII, empties, for every printable ASCII delimiter except the quote "
                   "(+ tab, 0x01; inadmissible quote/LF/CR rejected), formatted text and rows read back diffed against the model",
}
