"""C10 — printed numbers read back to the same value."""


def _c10_nontrivial(req, out):
    t = req.split(" ")
    return len(t) > 2 and t[2] not in ("0", "-", "30")


EXTRACT = {
    "consts": [
        ("JQ_MAX_RENDERED_MANTISSA_DIGITS", "src/jq/value.rs", "MAX_RENDERED_MANTISSA_DIGITS"),
    ],
    "kernels": [],
    "tables": [],
}

CFG = {
    "level": "proof",
    "level_text": "TODO",
    "level_note": "TODO",
    "technique": "Lean 4 proof over a string-level model; differential correspondence vs compiled model with an implementation-side parse-back oracle",
    "variants": [{"features": []}],
    "lean_modules": ["SuccinctlyVerif.Props.C10"],
    "lean_files": ["SuccinctlyVerif/Props/C10.lean", "SuccinctlyVerif/Proof/NumFmt.lean",
                   "SuccinctlyVerif/Model/NumFmt.lean", "SuccinctlyVerif/Spec/Dec.lean"],
    "generated": ["C10:"],
    "nontrivial": _c10_nontrivial,
    "rule": "TODO",
    "explanation": "TODO",
}
