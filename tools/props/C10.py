"""C10 — printed numbers read back to the same value."""


def _c10_nontrivial(req, out):
    # non-trivial: a number that is not 0 / empty and whose printed form carries an oracle verdict
    t = req.split(" ")
    return len(t) > 2 and t[2] not in ("0", "-", "30", "2d30") and ("RT-" in out or t[1] in ("norm", "tag"))


EXTRACT = {
    "consts": [
        ("JQ_MAX_RENDERED_MANTISSA_DIGITS", "src/jq/value.rs", "MAX_RENDERED_MANTISSA_DIGITS"),
    ],
    "kernels": [],
    "tables": [],
}

CFG = {
    "level": "proof",
    "level_text": "Lean 4 theorems over a string-level model (no floats): write_i64 prints every i64 exactly "
                  "(i64_print_exact, full); format_float_with_fraction is value-preserving and stays in the RFC 8259 "
                  "grammar on every Display-shaped text (with_fraction_value_preserving, full); format_float_yq_with never "
                  "panics on LowerExp-shaped text, returns ordinary_magnitude inside the -4..6 window and a value-preserving "
                  "RFC 8259 e±NN re-spelling outside it (yq_reformat_value_preserving, full); format_number_jq_compat is "
                  "value- and sign-preserving and emits a strict RFC 8259 number for every literal of the lenient grammar, "
                  "with or without exponent, with non-saturating i128 exponent arithmetic: no digit bound for literals that parse to "
                  "a finite non-zero double (after the fix of F-C10-1), ≤ cap+1 significant digits for zero-valued ones and for the "
                  "bounded preview variant (jq_literal_value_preserving, jq_literal_preview_value_preserving, full; one "
                  "lemma per Rust helper in Proof/NumFmtExp.lean); the cap side condition is shown necessary where it remains "
                  "(jq_literal_cap_truncates). Outside the theorem (and outside the property's 'finite double' "
                  "domain): f64-overflowing literals (helper lemma only), saturated exponents, >cap+1 digits.",
    "level_note": "The round trip of a double itself rests on trusted Rust core: f64 Display/LowerExp print a decimal that "
                  "str::parse::<f64> maps back to the same double, and parsing is a function of the decimal's exact value; "
                  "the theorems show the re-spellings preserve that exact value (Spec/Dec.sameVal) and the reader grammar. "
                  "Where the Rust code branches on a parsed f64 (finite / zero / sign) the model classifies the literal's exact "
                  "decimal against the binary64 round-to-nearest-even boundaries (Model/NumFmt.classify); this stand-in for core's "
                  "parser is checked by the correspondence on every run, not proved. Literals are quantified generatively "
                  "(Spec/Dec.Lit); the boolean recogniser isJsonNumber accepts exactly the strict ones (json_number_grammar_iff).",
    "technique": "Lean 4 proof over a string-level model; differential correspondence vs compiled model with an "
                 "implementation-side parse-back oracle (Rust parse::<f64> bit patterns) in every answer line",
    "variants": [{"features": []}],
    "lean_modules": ["SuccinctlyVerif.Props.C10"],
    "lean_files": ["SuccinctlyVerif/Props/C10.lean", "SuccinctlyVerif/Proof/NumFmt.lean", "SuccinctlyVerif/Proof/NumFmtExp.lean",
                   "SuccinctlyVerif/Model/NumFmt.lean", "SuccinctlyVerif/Spec/Dec.lean", "Driver/C10.lean"],
    "generated": ["C10:"],
    "required_theorems": ["SV.Props.C10.i64_print_exact", "SV.Props.C10.with_fraction_value_preserving",
                          "SV.Props.C10.jq_literal_value_preserving_partial", "SV.Props.C10.jq_literal_cap_truncates",
                          "SV.Props.C10.yq_reformat_value_preserving", "SV.Props.C10.jq_literal_value_preserving", "SV.Props.C10.jq_literal_preview_value_preserving",
                          "SV.Props.C10.json_number_grammar_iff"],
    "nontrivial": _c10_nontrivial,
    "rule": "request = one number through one printer route (i64 | wf/yq: a double given by its bits + the two core "
            "strings | lit/fnb: a literal | prev: error-message preview of a literal | norm: normalize_extreme_literal_mantissa with a cap | tag: resolve_plain kind); "
            "distinct request lines whose number is not 0/empty and whose answer carries an oracle verdict",
    "explanation": "Lean theorems: printers' re-spellings are value-preserving on exact decimals and stay in the reader grammar; "
                   "correspondence: Rust strings = model strings for write_i64, format_float_with_fraction, format_float_yq, "
                   "format_float_yq_yaml(_nested), needs_explicit_float_tag, format_number_jq_compat (all helpers, digit cap, "
                   "i128 exponent saturation, overflow/underflow classes), OwnedValue::from_number_bytes→to_json, plus RT/G oracles",
    "assumptions": ["Rust core: f64 Display / LowerExp are shortest-round-trip and str::parse::<f64> / i64 parsing are correctly "
                    "rounded (spot-checked by the RT oracle on every request, not proved)",
                    "input literals are valid UTF-8 (the from_utf8_lossy fallback of format_number_jq_compat is not modelled)"],
    "trusted_base": ["Model/NumFmt.classify: exact decimal vs binary64 overflow/underflow midpoints as stand-in for str::parse::<f64> "
                     "(finite / zero / infinite); validated by correspondence only"],
}
