"""C07 — JSON interest-bit rank/select and node positions."""


def _nontrivial(req, out):
    t = req.split(" ")
    return len(t) > 3 and t[2] != "-"


CFG = {
    "level": "proof",
    "level_text": "Lean 4 theorems over the model of build_ib_rank / ib_rank1 / ib_select1 / ib_select1_from (forward and "
                  "backward galloping, bracketed binary search) / text_position / cursor_at_offset: rank = count of interest "
                  "bits below pos, select = position of the k-th interest bit filtered by ib_len, for EVERY k and EVERY hint; "
                  "cursor_at_offset = open parenthesis of the last interest bit <= offset, over an exact BP rank (C04). "
                  "Tie: differential run of JsonIndex::from_parts on arbitrary words with adversarial hints, and of "
                  "JsonIndex::build on generated documents (text_position of every node, cursor_at_offset / "
                  "cursor_at_position at every offset) with an in-process property oracle from the generator's own node offsets.",
    "level_note": "Trusts Lean kernel, the correspondence harness, select_in_word = selectInWordSpec (C02), BalancedParens::rank1 "
                  "exact (C04), LineIndex (C12). That the k-th interest bit of a built index is the k-th node's first byte is "
                  "property C05/C06 (index structure); here it is checked by the in-process oracle only. u32 rank entries: "
                  "theorems assume total ones < 2^32 (constructors assert ib_len <= u32::MAX).",
    "technique": "Lean 4 proof (induction; binary-search/gallop bracket invariants) + differential correspondence vs compiled model",
    "variants": [{"features": []}],
    "lean_modules": ["SuccinctlyVerif.Props.C07"],
    "lean_files": ["SuccinctlyVerif/Props/C07.lean", "SuccinctlyVerif/Proof/JsonIb.lean", "SuccinctlyVerif/Model/JsonIb.lean"],
    "generated": [],
    "allow_bv_decide": True,
    "required_theorems": ["SV.Props.C07.ib_rank1_eq", "SV.Props.C07.ib_select1_eq",
                          "SV.Props.C07.select_from_hint_irrelevant", "SV.Props.C07.cursor_at_offset_eq"],
    "nontrivial": _nontrivial,
    "rule": "request = one index (arbitrary IB words or a generated JSON document) with a batch of rank/select/select_from/"
            "text_position/cursor_at_offset queries; distinct request lines with a non-empty index",
    "explanation": "proof over the model + differential tie; see level_text",
}
