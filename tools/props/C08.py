"""C08 — strict JSON validation accepts exactly RFC 8259 documents."""

EXTRACT = {
    "consts": [
        ("JSON_MAX_NESTING_DEPTH", "src/json/validate.rs", "MAX_NESTING_DEPTH"),
    ],
}


def _c08_nontrivial(req, out):
    # a request is non-trivial when the document has at least 2 bytes
    t = req.split(" ")
    return len(t) > 2 and len(t[2]) >= 4


CFG = {
    "level": "proof",
    "level_text": "Lean 4 theorems over a function-by-function model of json::validate::Validator: "
                  "validate_ok_iff (for every byte string and every nesting limit: validator succeeds <-> RFC 8259 derivation "
                  "relation with well-formed UTF-8, paired surrogate escapes, depth <= MAX_NESTING_DEPTH; soundness and "
                  "completeness, full), error_linecol (full), error_offset_viable_partial (all error kinds except "
                  "UnpairedSurrogate/InvalidUnicodeEscape; for those the property is refuted on the model: "
                  "error_offset_viable_fails = finding F5), error_offset_viable_outside_f5 (every kind, outside the decidable "
                  "syntactic F5 class), acceptB_iff / viableB_iff / lvp_longest_viable (the executable pushdown oracle decides "
                  "Valid and Viable; lvp is the longest viable prefix), reconciliation lemmas with Spec/Utf8 and Spec/Lines.",
    "level_note": "Trusts Lean kernel + bv_decide certificate checker (UTF-8 byte-range facts only, axioms listed per theorem), "
                  "the hand-written model being the Rust code (tied by the differential harness on a near-valid stream), the "
                  "constant extractor (MAX_NESTING_DEPTH). The F5 class of error_offset_viable_outside_f5 is a syntactic over-approximation (it also contains the truncated low half of a correct pair).",
    "technique": "Lean 4 proof over a function-by-function model of the validator; differential correspondence vs compiled model + independent pushdown-automaton oracle",
    "variants": [{"features": []}],
    "lean_modules": ["SuccinctlyVerif.Props.C08"],
    "lean_files": ["SuccinctlyVerif/Spec/Json.lean", "SuccinctlyVerif/Spec/JsonPda.lean",
                   "SuccinctlyVerif/Model/JsonValidate.lean", "SuccinctlyVerif/Props/C08.lean",
                   "SuccinctlyVerif/Proof/JsonBase.lean", "SuccinctlyVerif/Proof/JsonNumber.lean",
                   "SuccinctlyVerif/Proof/JsonUtf8.lean", "SuccinctlyVerif/Proof/JsonString.lean",
                   "SuccinctlyVerif/Proof/JsonValue.lean", "SuccinctlyVerif/Proof/JsonComplete.lean",
                   "SuccinctlyVerif/Proof/JsonF5.lean", "SuccinctlyVerif/Proof/JsonLineCol.lean",
                   "SuccinctlyVerif/Proof/JsonErrTok.lean", "SuccinctlyVerif/Proof/JsonErr.lean",
                   "SuccinctlyVerif/Proof/JsonErrSurr.lean", "SuccinctlyVerif/Proof/JsonPdaWF.lean",
                   "SuccinctlyVerif/Proof/JsonPdaSound.lean", "SuccinctlyVerif/Proof/JsonPdaComplete.lean",
                   "SuccinctlyVerif/Proof/JsonPdaInv.lean", "SuccinctlyVerif/Proof/JsonAlias.lean"],
    "allow_bv_decide": True,
    "required_theorems": ["SV.Props.C08.validate_ok_iff", "SV.Props.C08.error_linecol",
                          "SV.Props.C08.error_offset_viable_fails", "SV.Props.C08.error_offset_viable_partial",
                          "SV.Props.C08.acceptB_iff", "SV.Props.C08.viableB_iff", "SV.Props.C08.lvp_longest_viable",
                          "SV.Props.C08.error_offset_viable_outside_f5"],
    "generated": ["C08:"],
    "nontrivial": _c08_nontrivial,
    "rule": "request = one document; distinct request lines whose document has at least 2 bytes",
    "explanation": "Lean theorems: model accepts exactly the RFC 8259 derivation relation; line/column = lineCol(offset); error "
                   "offset within the longest viable prefix for all kinds but the two surrogate-escape kinds (F5). Correspondence: "
                   "Rust validate() (kind, payload, offset, line, column) vs compiled model on generated documents with "
                   "truncations, single-byte mutations, deletions, insertions of all 256 byte values, depth probes 124..132, "
                   "UTF-8 edge sequences, surrogate-escape combinations, number/keyword edge forms, CR/LF/CRLF layouts, random bytes; "
                   "every answer cross-checked against an independent byte-at-a-time pushdown recogniser (acceptance, longest viable prefix, completion accepted by model)",
}
