"""C08 — strict JSON validation accepts exactly RFC 8259 documents."""

EXTRACT = {
    "consts": [
        ("JSON_MAX_NESTING_DEPTH", "src/json/validate.rs", "MAX_NESTING_DEPTH"),
    ],
}


def _c08_nontrivial(req, out):
    # a request is non-trivial when the document has at least 2 bytes
    t = req.split(" ")
    return len(t) > 2 and len(t[2]) >= 4


CFG = {
    "level": "proof",
    "level_text": "TODO",
    "level_note": "TODO",
    "technique": "Lean 4 proof over a function-by-function model of the validator; differential correspondence vs compiled model + independent pushdown-automaton oracle",
    "variants": [{"features": []}],
    "lean_modules": [],
    "lean_files": ["SuccinctlyVerif/Spec/Json.lean", "SuccinctlyVerif/Spec/JsonPda.lean",
                   "SuccinctlyVerif/Model/JsonValidate.lean"],
    "generated": ["C08:"],
    "nontrivial": _c08_nontrivial,
    "rule": "request = one document; distinct request lines whose document has at least 2 bytes",
    "explanation": "TODO",
}
