"""C08 — strict JSON validation accepts exactly RFC 8259 documents."""

EXTRACT = {
    "consts": [
        ("JSON_MAX_NESTING_DEPTH", "src/json/validate.rs", "MAX_NESTING_DEPTH"),
    ],
}


def _c08_nontrivial(req, out):
    # a request is non-trivial when the document has at least 2 bytes
    t = req.split(" ")
    return len(t) > 2 and len(t[2]) >= 4


CFG = {
    "level": "proof",
    "level_text": "TODO",
    "level_note": "TODO",
    "technique": "Lean 4 proof over a function-by-function model of the validator; differential correspondence vs compiled model + independent pushdown-automaton oracle",
    "variants": [{"features": []}],
    "lean_modules": ["SuccinctlyVerif.Props.C08"],
    "lean_files": ["SuccinctlyVerif/Spec/Json.lean", "SuccinctlyVerif/Spec/JsonPda.lean",
                   "SuccinctlyVerif/Model/JsonValidate.lean", "SuccinctlyVerif/Props/C08.lean",
                   "SuccinctlyVerif/Proof/JsonBase.lean", "SuccinctlyVerif/Proof/JsonNumber.lean",
                   "SuccinctlyVerif/Proof/JsonUtf8.lean", "SuccinctlyVerif/Proof/JsonString.lean",
                   "SuccinctlyVerif/Proof/JsonValue.lean", "SuccinctlyVerif/Proof/JsonComplete.lean",
                   "SuccinctlyVerif/Proof/JsonF5.lean", "SuccinctlyVerif/Proof/JsonLineCol.lean"],
    "allow_bv_decide": True,
    "required_theorems": ["SV.Props.C08.validate_ok_iff", "SV.Props.C08.error_linecol",
                          "SV.Props.C08.error_offset_viable_fails"],
    "generated": ["C08:"],
    "nontrivial": _c08_nontrivial,
    "rule": "request = one document; distinct request lines whose document has at least 2 bytes",
    "explanation": "TODO",
}
