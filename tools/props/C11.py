"""C11 — jq output of a JSON document reads back to the same value."""
import os

_ROOT = os.path.dirname(os.path.dirname(os.path.dirname(os.path.abspath(__file__))))
_CLI = os.path.join(_ROOT, ".build", "target-cli", "release", "succinctly")


def _canon(req, out):
    # `#vk=…` (per-value cursor/owned kinds reported by the route trace hook) is evidence, not compared
    return out.split(" #", 1)[0]


def _nontrivial(req, out):
    # a request is non-trivial when its documents are not all bare scalars (some container byte present)
    t = req.split(" ")
    return len(t) > 6 and ("5b" in t[6] or "7b" in t[6])


CFG = {
    "level": "proof",
    "level_text": "Lean 4 theorems over the hand-written model of the jq printers (Model/JqOutput.lean), all at full strength: "
                  "print_read / print_read_value / input_print_read - the reference RFC 8259 reader (any whitespace, strict "
                  "strings, duplicates kept) applied to the printed text returns the route's prepared value (collapsed, "
                  "-S-sorted) for every input the reader accepts (input_wf), every option set and every route, numbers "
                  "related through the re-spelling's law; print_fast_read - the echoing identity fast path, for every span "
                  "(reader locality + fuel monotonicity); collapse_spec - first position / last value / no repeated key; "
                  "sorted_keys - -S output has strictly increasing keys (scalar-value = UTF-8 byte order); ascii_only - -a "
                  "output is ASCII; print_framing - RS prefix / NUL / newline framing. Tie (translation validation of the CLI "
                  "routes): CLI stdout bytes = model bytes on generated documents x pairwise-covering flag sets, plus an "
                  "in-harness strict-reader oracle.",
    "level_note": "Number re-spelling (format_number_jq_compat) is a parameter of the model (property C10 owns it); the "
                  "driver checks on every number of every request that the re-spelling is an RFC 8259 number denoting the "
                  "same double (exact decimal->binary64 in Lean). Rust core f64 parsing is trusted in the harness oracle.",
    "technique": "Lean 4 proof (structural induction over values) + differential correspondence of the CLI vs compiled model + strict-reader oracle",
    "variants": [{"features": [], "env": {"SV_CLI": _CLI}}],
    "needs_cli": True,
    "lean_modules": ["SuccinctlyVerif.Props.C11"],
    "lean_files": ["SuccinctlyVerif/Props/C11.lean", "SuccinctlyVerif/Proof/JqOutput.lean",
                   "SuccinctlyVerif/Model/JqOutput.lean"],
    "generated": [],
    "required_theorems": ["SV.Props.C11.print_read", "SV.Props.C11.print_read_value", "SV.Props.C11.collapse_spec",
                          "SV.Props.C11.sorted_keys", "SV.Props.C11.ascii_only", "SV.Props.C11.print_framing",
                          "SV.Props.C11.print_fast_read", "SV.Props.C11.input_wf", "SV.Props.C11.input_print_read"],
    "canon": _canon,
    "nontrivial": _nontrivial,
    "rule": "request = one CLI process (flag set x program x 1-8 documents); distinct request lines whose documents contain a container",
    "explanation": "CLI stdout (identity fast path / lazy cursor printer / materialised printer, forced by flags and program "
                   "shape and confirmed by the verif-hooks route trace) vs the proved Lean printer model byte for byte, plus "
                   "READBACK/SORTED verdicts of an independent strict JSON reader in the harness",
}
