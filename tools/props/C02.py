"""C02 — word-level bit kernels."""


def _c02_nontrivial(req, out):
    # a kernel request is non-trivial when the word is neither 0 nor all-ones
    t = req.split(" ")
    return len(t) > 2 and t[2] not in ("0", "ffffffffffffffff", "-")


CFG = {
    "level": "proof",
    "level_text": "Lean 4 theorems: each kernel model (SWAR popcount translated from source, select-in-byte over the "
                  "dumped table, CTZ/broadword/PDEP select, block popcounts, in-word parenthesis kernels) equals the "
                  "bit-at-a-time spec for all 2^64 words and all k; tie: translator re-generates kernels/tables each run "
                  "and every host dispatch path is diffed against the compiled model.",
    "level_note": "Trusts Lean kernel + bv_decide certificate checker (axiom listed per theorem), the rs2lean translator, "
                  "the lane/PDEP/ctz semantics in Model/Prim.lean, and the differential harness. NEON/SVE2 paths unreachable on this host.",
    "technique": "Lean 4 proof (bv_decide + induction) over translated kernels; differential correspondence vs compiled model",
    "variants": [{"features": []}],
    "lean_modules": ["SuccinctlyVerif.Props.C02"],
    "lean_files": ["SuccinctlyVerif/Props/C02.lean", "SuccinctlyVerif/Proof/Kernels.lean",
                   "SuccinctlyVerif/Model/Words.lean", "SuccinctlyVerif/Model/Prim.lean"],
    "generated": ["common:", "tables"],
    "allow_bv_decide": True,
    "nontrivial": _c02_nontrivial,
    "rule": "request = one kernel invocation (word(s) + rank/start); distinct request lines whose word argument is neither 0 nor all-ones",
    "explanation": "Lean theorems: every kernel model = bit-at-a-time spec for all words; correspondence: every "
                   "dispatch path of the Rust kernels (CTZ, broadword, PDEP, dispatcher, portable/AVX2 block popcount, "
                   "scan_select, in-word parenthesis kernels) vs the proved models on generated words",
}
