"""C02 — word-level bit kernels."""


def _c02_nontrivial(req, out):
    # a kernel request is non-trivial when the word is neither 0 nor all-ones
    t = req.split(" ")
    return len(t) > 2 and t[2] not in ("0", "ffffffffffffffff", "-")


CFG = {
    "level": "proof",
    "level_text": "Lean 4 theorems, all proved in full (no partial results): for all 2^64 words and every k / p, the model "
                  "of each kernel equals the bit-at-a-time spec - SWAR popcount (translated from source), count_ones, "
                  "trailing_zeros/ilog2/PDEP primitives, select_in_byte over the dumped 2048-entry table, "
                  "select_in_word CTZ loop / broadword (translated SWAR byte counts + loop + table) / PDEP, "
                  "block_popcount portable and AVX2 lane model for every 8-word block, find_unmatched_close_in_word and "
                  "find_close_in_word against the linear excess scan; tie: translator re-generates kernels/tables each run "
                  "and every host dispatch path is diffed against the compiled model (which also cross-checks the spec).",
    "level_note": "Trusts Lean kernel + bv_decide certificate checker (axiom listed per theorem), the rs2lean translator, "
                  "the lane/PDEP/ctz semantics in Model/Prim.lean, and the differential harness. NEON/SVE2 paths unreachable on this host.",
    "technique": "Lean 4 proof (bv_decide + induction) over translated kernels; differential correspondence vs compiled model",
    "variants": [{"features": []}],
    "lean_modules": ["SuccinctlyVerif.Props.C02"],
    "lean_files": ["SuccinctlyVerif/Props/C02.lean", "SuccinctlyVerif/Proof/Kernels.lean",
                   "SuccinctlyVerif/Proof/KernelsList.lean", "SuccinctlyVerif/Proof/KernelsBP.lean",
                   "SuccinctlyVerif/Proof/KernelsBlock.lean", "SuccinctlyVerif/Proof/KernelsSelect.lean",
                   "SuccinctlyVerif/Proof/KernelsPdep.lean",
                   "SuccinctlyVerif/Model/Words.lean", "SuccinctlyVerif/Model/Prim.lean",
                   "SuccinctlyVerif/Spec/Bits.lean", "SuccinctlyVerif/Spec/BP.lean"],
    "required_theorems": ["SV.Props.C02." + t for t in (
        "popcount_portable_eq", "popc_eq", "select_in_byte_eq", "tz_eq", "ilog2_eq", "pdep_bit",
        "select_ctz_eq", "select_broadword_eq", "broadword_in_range", "select_pdep_eq", "select_paths_agree",
        "block_popcount_portable_eq", "block_popcount_avx2_eq",
        "find_unmatched_close_eq", "find_close_in_word_eq")],
    "generated": ["common:", "tables"],
    "allow_bv_decide": True,
    "nontrivial": _c02_nontrivial,
    "rule": "request = one kernel invocation (word(s) + rank/start); distinct request lines whose word argument is neither 0 nor all-ones",
    "explanation": "Lean theorems: every kernel model = bit-at-a-time spec for all words; correspondence: every "
                   "dispatch path of the Rust kernels (CTZ, broadword, PDEP, dispatcher, portable/AVX2 block popcount, "
                   "scan_select, in-word parenthesis kernels) vs the proved models on generated words",
}
