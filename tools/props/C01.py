"""C01 — BitVec rank / select / access are exact."""


def _c01_nontrivial(req, out):
    # a request is non-trivial when the vector has at least one word that is neither 0 nor all-ones
    # and the construction did not panic
    t = req.split(" ")
    if len(t) < 6 or out == "PANIC":
        return False
    return any(w not in ("0", "ffffffffffffffff") for w in t[2].split(",")) and t[2] != "-"


CFG = {
    "level": "proof",
    "level_text": "Lean 4 theorems over a line-by-line model of BitVec::with_config / rank1 / rank0 / select1 / select0 / "
                  "get / count_* (tail masking, popcount_words, Poppy rank directory with the real u128 packing and "
                  "u32/u16 truncations, sampled select index, shared block-skipping scan, binary-search select0): every "
                  "answer equals the one computed from the first len bits, for all word vectors, lengths, sample rates, "
                  "query arguments and every exact per-word popcount; tie: the three popcount builds are diffed against "
                  "the compiled model.",
    "level_note": "select_in_word is taken as SV.selectInWordSpec (its CTZ/broadword/PDEP paths are proved equal to it under "
                  "C02); scan_select is the shared Model/Scan (proved = plain scan in Proof/Scan). Hypothesis of every "
                  "theorem: 64*|words| + 2^32 <= 2^64 (usize arithmetic cannot wrap). The L0 level (vectors > 2^32 bits) is "
                  "proved but not exercised by the correspondence (512 MiB vectors exceed the request size limit); the "
                  "AVX-512 popcount path cannot run on this host. Vec allocation, the aligned allocator and serde are not modelled.",
    "technique": "Lean 4 proof (induction over the build loops, bv_decide for the u128 pack/unpack and mask lemmas); "
                 "differential correspondence vs compiled model on three feature builds",
    "variants": [{"features": []}, {"features": ["simd"]}, {"features": ["portable-popcount"]}],
    "lean_modules": ["SuccinctlyVerif.Props.C01"],
    "lean_files": ["SuccinctlyVerif/Props/C01.lean", "SuccinctlyVerif/Proof/BitVec.lean",
                   "SuccinctlyVerif/Model/BitVec.lean", "SuccinctlyVerif/Model/Scan.lean",
                   "SuccinctlyVerif/Proof/Scan.lean"],
    "generated": ["common:"],
    "allow_bv_decide": True,
    "nontrivial": _c01_nontrivial,
    "rule": "request = one construction (words, len, sample rate) + its whole operation list; distinct request lines "
            "whose construction succeeds and whose words are not all 0 / all-ones",
    "explanation": "Lean theorems: model answers = answers computed from the first len bits (all inputs, rates, "
                   "popcount strategies); correspondence: BitVec public API of the default / simd / portable-popcount "
                   "builds vs the proved model on generated vectors and operation lists",
}
