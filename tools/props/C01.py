"""C01 — BitVec rank / select / access are exact."""


def _c01_nontrivial(req, out):
    # a request is non-trivial when the vector has at least one word that is neither 0 nor all-ones
    # and the construction did not panic
    t = req.split(" ")
    if len(t) < 6 or out == "PANIC":
        return False
    return any(w not in ("0", "ffffffffffffffff") for w in t[2].split(",")) and t[2] != "-"


_SHRINK_BUDGET = [240]   # candidates evaluated per run (each costs one harness + one driver process)


def _c01_shrink(req):
    """Candidates smaller than `req` (C01 bv <words> <len> <rate> <ops>): fewer ops, fewer / zeroed words,
    shorter len, default rate. tools/run.py keeps a candidate only if implementation and model still differ."""
    for cand in _c01_shrink_all(req):
        if _SHRINK_BUDGET[0] <= 0:
            return
        _SHRINK_BUDGET[0] -= 1
        yield cand


def _c01_shrink_all(req):
    t = req.split(" ")
    if len(t) != 6 or t[1] != "bv":
        return
    ws = [] if t[2] == "-" else t[2].split(",")
    ln, rate, ops = int(t[3]), t[4], t[5].split(",")

    def mk(ws_, ln_, rate_, ops_):
        return "C01 bv %s %d %s %s" % (",".join(ws_) if ws_ else "-", ln_, rate_, ",".join(ops_) if ops_ else "-")
    if len(ops) > 1:
        h = len(ops) // 2
        yield mk(ws, ln, rate, ops[:h])
        yield mk(ws, ln, rate, ops[h:])
        for o in ops[:6]:
            yield mk(ws, ln, rate, [o])
    if ws:
        n = len(ws)
        for keep in (n // 2, (3 * n) // 4, n - 1 if n <= 8 else n):   # drop words from the end (geometric)
            if 0 <= keep < n:
                yield mk(ws[:keep], min(ln, 64 * keep), rate, ops)
        for ln_ in (ln // 2, (3 * ln) // 4):
            if ln_ < ln:
                yield mk(ws, ln_, rate, ops)
        if n <= 8:
            for i in range(n):
                if ws[i] != "0":
                    yield mk(ws[:i] + ["0"] + ws[i + 1:], ln, rate, ops)
    for r_ in ("256", "1"):
        if rate != r_:
            yield mk(ws, ln, r_, ops)


CFG = {
    "level": "proof",
    "level_text": "Lean 4 theorems (Props/C01.lean, no partial results) over a line-by-line model of BitVec::with_config / "
                  "rank1 / rank0 / select1 / select0 / get / count_ones / count_zeros: tail masking, popcount_words, the Poppy "
                  "rank directory with the real u128 packing (L0 list, u32 L1 relative to the L0 base, seven 9-bit L2 fields at "
                  "bit 32+9i, u16 block accumulator) and rank_at_word's unpacking and clamp, the sampled select index "
                  "(sample_rate.max(1), early return), jump_to, the shared block-skipping scan, select_in_word, the result<len "
                  "guard and the binary-search select0. Proved for ALL word vectors, lengths len <= 64*|words|, sample rates "
                  "(0 included), query arguments (out-of-range included) and every exact per-word popcount: each of the seven "
                  "answers equals the one computed from the first len bits (rank1_exact, rank0_exact, select1_exact, "
                  "select0_exact, get_exact incl. panic iff i >= len, count_exact, build_panics iff len > capacity); "
                  "corollaries stray_bits_irrelevant, rate_irrelevant, popcount_strategy_irrelevant; width side conditions "
                  "proved, not assumed (L2 <= 448 < 2^9, accumulator <= 512 < 2^16, L1 - L0base < 2^32 from "
                  "BLOCKS_PER_SUPERBLOCK*512 <= 2^32 decided on the regenerated constants, no usize underflow in rank0 / "
                  "count_zeros / jump_to). Tie: default, simd and portable-popcount builds of the real BitVec are diffed against "
                  "the compiled model on generated (words, len, rate, operation list) requests.",
    "level_note": "select_in_word is taken as SV.selectInWordSpec (its CTZ / broadword / PDEP dispatch paths are proved equal to "
                  "it under C02); scan_select is the shared Model/Scan (proved equal to the plain scan in Proof/Scan). "
                  "Hypotheses of the theorems: 64*|words| + 2^32 <= 2^64 (no usize computation of the build can wrap; the "
                  "largest value formed is next_sample + rate) and rate < 2^32 (u32). The L0 level (vectors > 2^32 bits) is "
                  "proved for every size but not exercised by the correspondence (a 512 MiB vector exceeds the per-request "
                  "size limit and the list-based driver); the AVX-512 popcount loop is modelled and proved equal to the sum "
                  "but cannot run on this host. The u128 pack/unpack lemma and two word-mask lemmas use bv_decide "
                  "(axiom listed per theorem). Vec allocation, the cache-aligned allocator, Clone and serde are not modelled.",
    "technique": "Lean 4 proof (induction over the build loops, bv_decide for the u128 pack/unpack and mask lemmas); "
                 "differential correspondence vs compiled model on three feature builds",
    "variants": [{"features": []}, {"features": ["simd"]}, {"features": ["portable-popcount"]}],
    "lean_modules": ["SuccinctlyVerif.Props.C01"],
    "lean_files": ["SuccinctlyVerif/Props/C01.lean", "SuccinctlyVerif/Proof/BitVec.lean",
                   "SuccinctlyVerif/Proof/BitVecPack.lean",
                   "SuccinctlyVerif/Model/BitVec.lean", "SuccinctlyVerif/Model/Scan.lean",
                   "SuccinctlyVerif/Proof/Scan.lean"],
    "generated": ["common:"],
    "required_theorems": ["SV.Props.C01.rank1_exact", "SV.Props.C01.rank0_exact", "SV.Props.C01.select1_exact",
                          "SV.Props.C01.select0_exact", "SV.Props.C01.get_exact", "SV.Props.C01.count_exact",
                          "SV.Props.C01.stray_bits_irrelevant", "SV.Props.C01.rate_irrelevant",
                          "SV.Props.C01.popcount_strategy_irrelevant", "SV.Props.C01.rank_directory_exact",
                          "SV.Props.C01.masking_exact", "SV.Props.C01.build_panics"],
    "allow_bv_decide": True,
    "nontrivial": _c01_nontrivial,
    "shrink": _c01_shrink,
    "rule": "request = one construction (words, len, sample rate) + its whole operation list; distinct request lines "
            "whose construction succeeds and whose words are not all 0 / all-ones",
    "explanation": "Lean theorems: model answers = answers computed from the first len bits (all inputs, rates, "
                   "popcount strategies); correspondence: BitVec public API of the default / simd / portable-popcount "
                   "builds vs the proved model on generated vectors and operation lists",
}
