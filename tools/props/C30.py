"""C30 — jq programs never crash the process."""
import os

_ROOT = os.path.dirname(os.path.dirname(os.path.dirname(os.path.abspath(__file__))))
_CLI = os.path.join(_ROOT, ".build", "target-cli", "release", "succinctly")

MODELLED = {"guard"}
_BAD = ("PANIC", "ABORT", "TIMEOUT")


def _canon(req, ans):
    """guard ops: exact.  Everything else: crash bit only; programs that do not terminate within the
    wall-clock guard (NONTERM) are outside the property's quantifier and compare equal to anything."""
    t = req.split(" ", 2)
    op = t[1] if len(t) > 1 else ""
    if op in MODELLED:
        return ans
    return ans if ans.startswith(_BAD) else "NOPANIC"


def _verdict(req, impl, model):
    """`evm`: crash / abort always counts; where the jq model has a verdict the implementation's run line
    (outputs, then END / ERR:<payload> / BREAK / HALT:n) must equal it; no verdict, a program the
    implementation's parser rejects, a non-terminating program or an evaluator disagreement (recorded
    under C23) are skips.  Every other op: the crash-bit comparison of `_canon`."""
    t = req.split(" ", 2)
    op = t[1] if len(t) > 1 else ""
    if op == "evm":
        if impl.startswith(_BAD) or impl.startswith("HARNESS-ERROR"):
            return "disagree"
        if impl.startswith("NONTERM") or impl == "PARSE-ERROR" or impl.startswith("EVALS-DISAGREE") or "OUT-OF-FRAGMENT" in model:
            return "skip"
        return "agree" if impl == model else "disagree"
    return "agree" if _canon(req, impl) == _canon(req, model) else "disagree"


def _counters(triples):
    evm = [t for t in triples if t[0].split(" ", 2)[1] == "evm"]
    verd = [t for t in evm if not (t[1].startswith("NONTERM") or t[1] == "PARSE-ERROR" or t[1].startswith("EVALS-DISAGREE") or "OUT-OF-FRAGMENT" in t[2])]
    return {"evm_runs": len(evm), "evm_runs_with_model_verdict": len(verd),
            "evm_runs_ending_in_error": sum(1 for t in verd if ";ERR:" in t[1] or t[1].startswith("ERR:")),
            "evm_nonterm": sum(1 for t in evm if t[1].startswith("NONTERM"))}


def _nontrivial(req, out):
    t = req.split(" ")
    return len(t) > 2 and len(t[2]) >= 4 and not out.startswith("NONTERM")


CFG = {
    "level": "other",
    "level_text": "Lean 4 theorems (proof) for the size guards as decision logic with thresholds extracted from the source "
                  "(range: MAX_RANGE; string repetition; setpath padding; limit): the value built in one step has size <= "
                  "f(inputs, literals, threshold) (`guards_bound_allocation_partial`: guarded builtins only). NOT proved, monitored only: "
                  "parser and evaluators on program soups and on generated programs with extreme operands, in-process under catch_unwind, "
                  "in a child process under an address-space ceiling (ulimit -v) and through the CLI (exit status in {0,1,2,3,5}).",
    "level_note": "Runtime aborts (allocation failure, stack overflow) are not expressible in the model; monitoring is support, not proof. "
                  "Programs that exceed the wall-clock guard are discarded as non-terminating.",
    "technique": "Lean 4 decision-logic model of the guards + bound theorems; panic/abort monitoring (catch_unwind, child process with "
                 "ulimit -v, CLI exit status)",
    "variants": [{"features": [], "env": {"SV_CLI": _CLI}}],
    "needs_cli": True,
    "canon": _canon,
    "verdict": _verdict,
    "counters": _counters,
    "lean_modules": ["SuccinctlyVerif.Props.C30"],
    "lean_files": ["SuccinctlyVerif/Props/C30.lean", "SuccinctlyVerif/Model/JqGuards.lean", "SuccinctlyVerif/Proof/JqGuards.lean"],
    "required_theorems": ["SV.Props.C30.guards_bound_allocation_partial", "SV.Props.C30.range_bounded", "SV.Props.C30.repeat_bounded", "SV.Props.C30.setpath_bounded"],
    "generated": ["C30:"],
    "nontrivial": _nontrivial,
    "rule": "request = one program (+ one input document); distinct request lines with a program of at least two bytes that terminated",
    "explanation": "parse: jq::parse / parse_program in jq and yq modes on token soups (non-ASCII included) never panics; evx: parse + "
                   "both evaluators + printers in a child process under ulimit -v: no panic, no abort; cli: `succinctly jq -c` / "
                   "`yq -o json` exit status in {0,1,2,3,5}; guard: sizes produced by range / string repetition / setpath / limit = model; "
                   "evm: extreme-operand programs in a child process, the run line of both evaluators diffed with Model/Jq where it has a verdict",
    "trusted_base": ["C30 monitored part: nothing is proved about the parser or the evaluators; absence of a crash on the generated "
                     "programs only"],
}

EXTRACT = {
    "consts": [
        ("JQ_MAX_RANGE", "src/jq/eval.rs", "MAX_RANGE"),
        ("JQ_RECURSE_MAX_ITEMS", "src/jq/eval.rs", "RECURSE_MAX_ITEMS"),
        ("JQ_REDUCE_FOREACH_MAX_STEPS", "src/jq/eval.rs", "REDUCE_FOREACH_MAX_STEPS"),
        ("JQ_WHILE_UNTIL_MAX_STEPS", "src/jq/eval.rs", "WHILE_UNTIL_MAX_STEPS"),
        ("JQ_MAX_VALUE_TREE_DEPTH", "src/jq/value.rs", "MAX_VALUE_TREE_DEPTH"),
        ("JQ_MAX_NESTING_DEPTH", "src/jq/eval_generic.rs", "MAX_NESTING_DEPTH"),
    ],
}
