"""C19 — malformed input never crashes the library or the CLI."""
import os

_ROOT = os.path.dirname(os.path.dirname(os.path.dirname(os.path.abspath(__file__))))
_CLI = os.path.join(_ROOT, ".build", "target-cli", "release", "succinctly")

# ops whose answer is produced by the Lean model with explicit partiality and diffed byte for byte
MODELLED = {"acc", "esc", "hex4", "dsvf"}
_BAD = ("PANIC", "ABORT", "TIMEOUT")


def _canon(req, ans):
    """Modelled ops: exact answer.  Monitored ops: only the crash bit (panic / abort / signal /
    exit 101 / time-out) is compared; the driver answers NOPANIC."""
    t = req.split(" ", 2)
    op = t[1] if len(t) > 1 else ""
    if op in MODELLED:
        return ans
    return ans if ans.startswith(_BAD) else "NOPANIC"


def _nontrivial(req, out):
    t = req.split(" ")
    return len(t) > 2 and len(t[2]) >= 4      # at least two input bytes


CFG = {
    "level": "other",
    "level_text": "Lean 4 theorems (proof) for the pure slicing logic of the JSON value-access layer and the DSV field slicer, "
                  "modelled with explicit partiality (every slice / index / subtraction is a checked operation that can answer "
                  "`panic`): JsonString::{raw_bytes, raw_and_escaped, as_str}, decode_escapes, parse_hex4, nested_number_span / "
                  "JsonNumber::raw_bytes, JsonCursor::{value, text_range, raw_bytes}, DsvCursor::current_field never answer `panic` "
                  "for any text and any start offset (text_range under len < 2^32, the u32 depth counter). NOT proved, monitored only "
                  "(systematic panic/abort/time-out monitoring under catch_unwind, in a child process and through the CLI): the semi-index "
                  "builders, BP navigation, validators, YAML loading/navigation/printing, JSON/YAML printers, jq evaluation of `.`, the DSV "
                  "index builders, the jq/yq program parser, the CLI glue.",
    "level_note": "A theorem cannot exhibit a Rust panic, abort or stack overflow; the proved part shows that the modelled slicing "
                  "arithmetic has no out-of-range case, the monitored part samples the rest. Reach of the monitoring = generator quality.",
    "technique": "Lean 4 partiality model + totality theorems (refutation witness by `decide` where the code panics); differential "
                 "correspondence of the accessors vs the compiled model; panic/abort monitoring (catch_unwind, child process, CLI exit status)",
    "variants": [{"features": [], "env": {"SV_CLI": _CLI}}],
    "needs_cli": True,
    "canon": _canon,
    "lean_modules": ["SuccinctlyVerif.Props.C19"],
    "lean_files": ["SuccinctlyVerif/Props/C19.lean", "SuccinctlyVerif/Model/JsonTotal.lean", "SuccinctlyVerif/Proof/JsonTotal.lean"],
    "required_theorems": ["SV.Props.C19.json_access_total", "SV.Props.C19.raw_bytes_v0_refuted", "SV.Props.C19.raw_bytes_v0_total_partial", "SV.Props.C19.decode_escapes_total", "SV.Props.C19.parse_hex4_total", "SV.Props.C19.json_access_total_text_range_partial", "SV.Props.C19.dsv_current_field_total_partial"],
    "generated": [],
    "nontrivial": _nontrivial,
    "rule": "request = one input (text + start offset for accessor requests; one byte string / program for monitored requests); "
            "distinct request lines whose input has at least two bytes",
    "explanation": "modelled ops (acc/esc/hex4/dsvf): implementation answer (each accessor under its own catch_unwind) = model answer "
                   "including the PANIC positions; monitored ops (json/yaml/dsv/jqp/iso/cli/clip): build + validate + full traversal + "
                   "printing + jq evaluation, in-process, in a child process (deep nesting) and through `succinctly jq . / yq . / yq -o json .`: "
                   "no panic, no abort, no signal, exit status != 101, no time-out",
    "trusted_base": ["C19 monitored part: nothing is proved about builders/navigation/YAML/printers/parser; absence of a crash on the "
                     "generated inputs only"],
}
