"""C25 — jq value identities hold for every value."""


def _verdict(req, impl, model):
    """The implementation's own identity verdict (ID-FAIL), EVALS-DISAGREE and PANIC always need an
    identical model answer; otherwise each identity's run line must equal the model's unless the model
    has no verdict for that program."""
    if impl.split("|")[-1] == "ID-FAIL" or "EVALS-DISAGREE" in impl or "PANIC" in impl:
        return "agree" if impl == model else "disagree"
    pa, pb = impl.split("|"), model.split("|")
    if len(pa) != len(pb):
        return "disagree"
    if any(x != y and "OUT-OF-FRAGMENT" not in y for x, y in zip(pa[:-1], pb[:-1])):
        return "disagree"
    return "skip" if all("OUT-OF-FRAGMENT" in y for y in pb[:-1]) else "agree"


def _counters(triples):
    return {
        "identity_ok": sum(1 for t in triples if t[1].endswith("|ID-OK")),
        "identity_fail": sum(1 for t in triples if t[1].endswith("|ID-FAIL")),
        "model_identity_ok": sum(1 for t in triples if t[2].endswith("|ID-OK")),
        "order_class_requests": sum(1 for t in triples if t[0].startswith("C25 ord ")),
    }


CFG = {
    "level": "proof",
    "level_text": "Lean theorems over the value-level functions of the jq model (Props/C25.lean, Proof/JqOrder, JqPaths, "
                  "JqCodec): jq's order is a total preorder on duplicate-free values for every lawful number carrier; sort = "
                  "ordered permutation; unique = strictly increasing set of representatives; getpath_defined / "
                  "setpath_getpath_id / getpath_setpath / setpath_frame for every p in paths v; to_entries|from_entries on "
                  "duplicate-free objects; @base64|@base64d and @uri|decode on all byte strings. tostream|fromstream; cmp = eq iff ==. Not proved (covered by the "
                  "tie only): tojson|fromjson. Tie: all identities are evaluated by both "
                  "Rust evaluators on generated values and every path, with an in-process verdict, and diffed with the model",
    "level_note": "numbers enter through an abstract carrier; `_partial` theorems name what is missing; @uri decode is "
                  "not checked (`@urid` is a succinctly extension without jq oracle)",
    "technique": "Lean 4 proof over the model + differential correspondence with in-process identity oracle",
    "variants": [{"features": []}],
    "lean_modules": ["SuccinctlyVerif.Props.C25"],
    "lean_files": ["SuccinctlyVerif/Props/C25.lean", "SuccinctlyVerif/Proof/JqOrder.lean", "SuccinctlyVerif/Proof/JqCodec.lean", "SuccinctlyVerif/Proof/JqPaths.lean", "SuccinctlyVerif/Proof/JqEqv.lean", "SuccinctlyVerif/Proof/JqStream.lean", "SuccinctlyVerif/Model/JqValue.lean", "SuccinctlyVerif/Model/Jq.lean"],
    "generated": [],
    "verdict": _verdict,
    "counters": _counters,
    "nontrivial": lambda req, out: req.split(" ")[3][:2] in ("5b", "7b"),
    "rule": "request = one generated duplicate-free JSON value (all identities evaluated on it and on each of its paths), or "
            "(`ord`) one array of objects over a single key set with permuted insertion orders, differing at two or more "
            "keys in opposite directions (also nested); non-trivial = the value is a container",
    "explanation": "10 identity programs x generated duplicate-free values (nested, all scalar kinds, non-ASCII, edge numbers) "
                   "through jq::eval and eval_generic (must agree and each print `true`: ID-OK) and through the Lean model; "
                   "`ord`: 19 order-sensitive programs (sort, sort_by(.), unique, unique_by(.), min, max, min_by/max_by, "
                   "group_by(.), reverse|sort, < > <= >= on both orders of each pair) on same-key-set object families; the "
                   "in-process verdict checks sortedness / strictness / extremality / every pairwise < and > against an "
                   "independent transcription of the model's JV.cmp (never the implementation's comparator), and every "
                   "run line is diffed with the model",
}
