"""C25 — jq value identities hold for every value."""


class _Ans(str):
    def __eq__(self, other):
        a, b = str(self), str(other)
        if "ID-FAIL" in a.split("|")[-1] and "OUT-OF-FRAGMENT" not in a:
            # the implementation's own identity verdict failed: always a violation unless the
            # model reproduces exactly the same answer (then it is the same recorded finding)
            return a == b
        if "EVALS-DISAGREE" in a or "PANIC" in a:
            return a == b
        pa, pb = a.split("|"), b.split("|")
        if len(pa) != len(pb):
            return False
        # per identity: equal, or the model has no verdict for that program
        return all(x == y or "OUT-OF-FRAGMENT" in y for x, y in zip(pa[:-1], pb[:-1]))

    def __ne__(self, other):
        return not self.__eq__(other)

    __hash__ = str.__hash__


CFG = {
    "level": "proof",
    "level_text": "Lean theorems over the value-level functions of the jq model (Props/C25.lean): cross-kind order, "
                  "lexicographic arrays, sort = permutation (+ ordered for any total transitive comparator), unique = "
                  "sublist of the sorted permutation, object field read/write laws, one-step setpath/getpath/frame laws, "
                  "to_entries|from_entries on duplicate-free objects; tie: the identities (incl. the ones not proved: "
                  "tojson|fromjson, tostream|fromstream, @base64|@base64d, multi-step paths, order totality) are "
                  "evaluated by both Rust evaluators on generated values and every path, with an in-process verdict, "
                  "and diffed with the model's run",
    "level_note": "numbers enter through an abstract carrier; `_partial` theorems name what is missing; @uri decode is "
                  "not checked (`@urid` is a succinctly extension without jq oracle)",
    "technique": "Lean 4 proof over the model + differential correspondence with in-process identity oracle",
    "variants": [{"features": []}],
    "lean_modules": ["SuccinctlyVerif.Props.C25"],
    "lean_files": ["SuccinctlyVerif/Props/C25.lean", "SuccinctlyVerif/Model/JqValue.lean", "SuccinctlyVerif/Model/Jq.lean"],
    "generated": [],
    "canon": lambda req, out: _Ans(out),
    "nontrivial": lambda req, out: req.split(" ")[3][:2] in ("5b", "7b"),
    "rule": "request = one generated duplicate-free JSON value (all identities evaluated on it and on each of its paths); "
            "non-trivial = the value is a container (request longer than the bare identity list)",
    "explanation": "10 identity programs x generated duplicate-free values (nested, all scalar kinds, non-ASCII, edge numbers) "
                   "through jq::eval and eval_generic (must agree and each print `true`: ID-OK) and through the Lean model",
}
