"""C29 — yq-locate expressions evaluate to the located YAML node."""
import os

_ROOT = os.path.dirname(os.path.dirname(os.path.dirname(os.path.abspath(__file__))))
_CLI = os.path.join(_ROOT, ".build", "target-cli", "release", "succinctly")

CFG = {
    "level": "translation_validation",
    "level_text": "Translation validation with an in-process property oracle: for generated streams (block, flow, multi-document, "
                  "LF/CRLF/CR) and offsets inside every scalar and key (first byte, last byte, a random inner byte; the harness "
                  "knows token extents and paths from its own renderer, which is checked byte-for-byte against the Lean `render`), "
                  "the expression of `yaml::locate_offset_detailed` is evaluated by `succinctly yq -s -o json` over the slurped "
                  "stream and must equal the node's value in the generated tree (for a key: the value the key names); `at_offset` "
                  "must return the token's own value; `succinctly yq-locate --offset` must print the library's expression. The "
                  "path reconstruction of yaml/locate.rs is NOT modelled in Lean; the only theorem (located_documents_are_loaded, "
                  "from C14's render_load) says that the generated documents the offsets refer to are what the reference loader "
                  "reads, for every admissible stream.",
    "level_note": "Streams showing a presentation feature with a recorded C14 loader finding are not generated here.",
    "technique": "differential execution with an in-process oracle derived from the generator's own token table",
    "variants": [{"features": [], "env": {"SV_CLI": _CLI}}],
    "needs_cli": True,
    "lean_modules": ["SuccinctlyVerif.Props.C29"],
    "lean_files": ["SuccinctlyVerif/Props/C29.lean", "SuccinctlyVerif/Proof/YamlRefDocs.lean"],
    "required_theorems": ["SV.Props.C29.located_documents_are_loaded"],
    "generated": [],
    "rule": "request = one generated stream with up to 60 offsets inside scalars/keys; large documents (60-400 nodes): every token start",
    "explanation": "locate expression evaluates to the located node's value; at_offset yields the token's own value; CLI = library",
}
