"""C18 — strict YAML validation never rejects a well-formed document; positioned errors."""
import os

_ROOT = os.path.dirname(os.path.dirname(os.path.dirname(os.path.abspath(__file__))))
_CLI = os.path.join(_ROOT, ".build", "target-cli", "release", "succinctly")

CFG = {
    "level": "other",
    "level_text": "Model-assisted differential (partial model). Modelled in Lean: ONLY the validator's position bookkeeping "
                  "(cursor moved by per-byte advance and consume_line_break) with theorem error_linecol: any run of those "
                  "operations from (0,1,1) ends at the naive (line, column) of its offset (LF, CR, CRLF = one break). NOT "
                  "modelled: the validator's decisions. Acceptance of every generated admissible stream (the C14 document "
                  "space, proved/validated reference) is checked against the library validator and `yq --validate`; "
                  "termination on arbitrary bytes is observed under a wall-clock guard (TIMEOUT is an answer the model never "
                  "prints), and every reported (line, column) is compared with the Lean spec's lineCol(offset).",
    "level_note": "Trusts Lean kernel, the harness, the C14 reference for what 'well-formed' means.",
    "technique": "Lean 4 invariant proof for the position cursor; generated-document acceptance and position differential",
    "variants": [{"features": [], "env": {"SV_CLI": _CLI}}],
    "needs_cli": True,
    "lean_modules": ["SuccinctlyVerif.Props.C18"],
    "lean_files": ["SuccinctlyVerif/Props/C18.lean", "SuccinctlyVerif/Proof/YamlValPos.lean",
                   "SuccinctlyVerif/Spec/YamlValPos.lean", "SuccinctlyVerif/Model/YamlValPos.lean"],
    "generated": [],
    "rule": "request = one generated stream (acceptance) or one byte string (termination + position); distinct request lines",
    "explanation": "acc: admissible generated stream -> validate() and `yq --validate` accept; pos: arbitrary bytes -> "
                   "validator returns within the guard, accept or error whose (line, column) = Spec lineCol(offset)",
}
