"""props — per-property configuration of the checks.

Each `tools/props/Cxx.py` defines `CFG` (what to build, which Lean modules carry the property
theorems, which generated parts the proofs depend on, evidence wording) and optionally `EXTRACT`
(what tools/extract.py regenerates from /repo's source into lean/SuccinctlyVerif/Generated/Cxx.lean).
`common.py` holds the extraction shared by several properties.
"""
import importlib, os, pkgutil

TRUSTED_BASE = [
    "Lean 4.33.0 kernel (thorough tier: leanchecker re-check of the property modules)",
    "axioms: propext, Classical.choice, Quot.sound; bv_decide's per-call *_native.bv_decide.ax_* only where allow_bv_decide is set (listed per theorem in obligation_list)",
    "tools/extract.py + tools/rs2lean.py: translation of constants / straight-line kernels / tables from /repo's working tree",
    "correspondence check: harness/ (Rust, real implementation in-process, hooks on) vs lean driver svdriver, tools/run.py diffing",
    "modelled-not-verified: u64::count_ones, trailing_zeros, leading_zeros/ilog2, wrapping arithmetic, PDEP, AVX2/SSE lane semantics (Model/Prim.lean, DESIGN §3)",
]

PROPS = {}
EXTRACTS = {}      # generated-file stem -> {"consts": [...], "kernels": [...], "tables": [...]}
NOT_APPLICABLE = {}

for _m in sorted(pkgutil.iter_modules([os.path.dirname(__file__)]), key=lambda m: m.name):
    mod = importlib.import_module(f"props.{_m.name}")
    if hasattr(mod, "CFG"):
        PROPS[_m.name] = mod.CFG
    if hasattr(mod, "EXTRACT"):
        EXTRACTS[_m.name] = mod.EXTRACT
