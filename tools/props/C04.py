"""C04 — balanced-parentheses navigation matches its linear-scan definition."""


def _c04_nontrivial(req, out):
    # non-trivial: a structure / free-function request over at least one word with at least one
    # position, or a kernel request on a word that is neither 0 nor all-ones
    t = req.split(" ")
    if len(t) < 3:
        return False
    if t[1] in ("bp", "idx"):
        return t[3] not in ("-", "0")
    if t[1] in ("free", "surplus"):
        return t[2] not in ("-", "0")
    return t[2] not in ("0", "ffffffffffffffff", "-")


EXTRACT = {
    "consts": [
        ("BP_WORDS_PER_RANK_BLOCK", "src/trees/bp.rs", "WORDS_PER_RANK_BLOCK"),
        ("BP_FACTOR_L1", "src/trees/bp.rs", "FACTOR_L1"),
        ("BP_FACTOR_L2", "src/trees/bp.rs", "FACTOR_L2"),
        ("BP_CS_POPPY_SAMPLE_RATE", "src/trees/bp.rs", "CS_POPPY_SAMPLE_RATE"),
    ],
    "tables": ["BYTE_MIN_EXCESS", "BYTE_MAX_EXCESS_REV", "BYTE_TOTAL_EXCESS", "BYTE_FIND_CLOSE"],
}

CFG = {
    "level": "proof",
    "level_text": "Lean 4 theorems over an executable model that follows src/trees/bp.rs (byte tables dumped from the "
                  "build, L0/L1/L2 min-excess index with i8/i16/i32 clamps and wraps, rank directory with packed 9-bit "
                  "offsets, select supports, the 7-state find_close_from machine, the word-skipping free functions, the "
                  "SSE4.1 lane model): see Props/C04.lean for the list of full and `_partial` theorems; tie: tables and "
                  "constants regenerated each run, every constructor x select support x build variant diffed against the "
                  "compiled model, which is itself cross-checked against the linear-scan spec on every request.",
    "level_note": "Trusts Lean kernel, the table/constant extractor, popcount / select_in_word semantics (C02), the SSE4.1 "
                  "lane semantics written in Model/BP.lean, and the differential harness. NEON builders unreachable on this host.",
    "technique": "Lean 4 proof (decide +kernel for tables, induction for directory / scans) + differential correspondence vs compiled model and spec",
    "variants": [{"features": []}, {"features": ["simd"]}],
    "lean_modules": ["SuccinctlyVerif.Props.C04"],
    "lean_files": ["SuccinctlyVerif/Props/C04.lean", "SuccinctlyVerif/Proof/BP.lean", "SuccinctlyVerif/Proof/BPTables.lean",
                   "SuccinctlyVerif/Proof/BPRank.lean", "SuccinctlyVerif/Proof/BPScan.lean",
                   "SuccinctlyVerif/Model/BP.lean", "SuccinctlyVerif/Spec/BPNav.lean"],
    "generated": ["C04:", "tables"],
    "allow_bv_decide": False,
    "nontrivial": _c04_nontrivial,
    "rule": "request = one structure (words, len, constructor) x one operation x a list of positions, or one kernel "
            "invocation; distinct request lines over a non-empty sequence / a word that is neither 0 nor all-ones",
    "explanation": "Lean theorems: model = linear-scan spec (see theorem list); correspondence: BalancedParens built by every "
                   "constructor and select support (rates 0..4096), free find_close/find_open/enclose, word kernels, L1/L2 "
                   "builders (SSE4.1 in the simd build) and the built index arrays vs the compiled model; the driver also "
                   "recomputes every answer from the linear-scan spec and reports MODEL-SPEC on any difference",
}
