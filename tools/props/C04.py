"""C04 — balanced-parentheses navigation matches its linear-scan definition."""


def _c04_nontrivial(req, out):
    # non-trivial: a structure / free-function request over at least one word with at least one
    # position, or a kernel request on a word that is neither 0 nor all-ones
    t = req.split(" ")
    if len(t) < 3:
        return False
    if t[1] in ("bp", "idx"):
        return t[3] not in ("-", "0")
    if t[1] in ("free", "surplus"):
        return t[2] not in ("-", "0")
    return t[2] not in ("0", "ffffffffffffffff", "-")


EXTRACT = {
    "consts": [
        ("BP_WORDS_PER_RANK_BLOCK", "src/trees/bp.rs", "WORDS_PER_RANK_BLOCK"),
        ("BP_FACTOR_L1", "src/trees/bp.rs", "FACTOR_L1"),
        ("BP_FACTOR_L2", "src/trees/bp.rs", "FACTOR_L2"),
        ("BP_CS_POPPY_SAMPLE_RATE", "src/trees/bp.rs", "CS_POPPY_SAMPLE_RATE"),
    ],
    "tables": ["BYTE_MIN_EXCESS", "BYTE_MAX_EXCESS_REV", "BYTE_TOTAL_EXCESS", "BYTE_FIND_CLOSE"],
}

CFG = {
    "level": "proof",
    "level_text": "Lean 4 theorems over an executable model that follows src/trees/bp.rs. PROVED for every constructor "
                  "(owned/borrowed, NoSelect/WithSelect/WithCsPoppy at any rate, scalar/SSE4.1 builders), |ws| = ceil(len/64), "
                  "any stray bits: byte_tables_eq (4 dumped tables = bit scans), rank1_eq, rank0_eq (len < 2^32; u32 block ranks "
                  "and 9-bit packed offsets shown lossless from WORDS_PER_RANK_BLOCK = 8), excess_eq_wrap / excess_eq, depth_eq "
                  "(i32-as-usize cast modelled; len < 2^31), is_open_eq, first_child_eq, method_find_open_eq, method_enclose_eq "
                  "(+parent), storage_strays_variant_irrelevant; free functions find_close_eq (word skipping by "
                  "word_min_excess_i32, len < 2^31), find_open_eq, enclose_eq (skipping by word_max_excess_rev); block_min_sound; "
                  "word_summaries_exact (i8 clamp lossless). PARTIAL / NOT PROVED: method find_close / find_close_from "
                  "(seven-state loop simulation, L1/L2 fold exactness, fuel) - only the guards "
                  "(method_find_close_guard_partial) and next_sibling / subtree_size relative to it "
                  "(next_sibling_subtree_size_partial); select1 for WithSelect/WithCsPoppy and select0 "
                  "(select1_noselect_partial only); SSE4.1 builders = scalar builders (lane model executed and compared on "
                  "every request, not proved). These are covered by the correspondence and by the driver's model-vs-spec "
                  "comparison only. Tie: tables and constants regenerated each run, every constructor x select support x build "
                  "variant diffed against the compiled model, itself cross-checked against the linear-scan spec on every request.",
    "level_note": "Trusts Lean kernel, the table/constant extractor, popcount / select_in_word semantics (C02), the SSE4.1 "
                  "lane semantics written in Model/BP.lean, and the differential harness. NEON builders unreachable on this host.",
    "technique": "Lean 4 proof (decide +kernel for tables, induction for directory / scans) + differential correspondence vs compiled model and spec",
    "variants": [{"features": []}, {"features": ["simd"]}],
    "lean_modules": ["SuccinctlyVerif.Props.C04"],
    "lean_files": ["SuccinctlyVerif/Props/C04.lean", "SuccinctlyVerif/Proof/BP.lean", "SuccinctlyVerif/Proof/BPTables.lean",
                   "SuccinctlyVerif/Proof/BPRank.lean", "SuccinctlyVerif/Proof/BPRankEq.lean", "SuccinctlyVerif/Proof/BPNavEq.lean",
                   "SuccinctlyVerif/Proof/BPScan.lean", "SuccinctlyVerif/Proof/BPWord.lean", "SuccinctlyVerif/Proof/BPEnclose.lean",
                   "SuccinctlyVerif/Proof/BPMethods.lean", "SuccinctlyVerif/Proof/BPClose.lean", "SuccinctlyVerif/Proof/BPClose2.lean",
                   "SuccinctlyVerif/Proof/BPClose3.lean", "SuccinctlyVerif/Proof/BPSibling.lean",
                   "SuccinctlyVerif/Model/BP.lean", "SuccinctlyVerif/Spec/BPNav.lean"],
    "required_theorems": ["SV.Props.C04.byte_tables_eq", "SV.Props.C04.rank1_eq", "SV.Props.C04.find_close_eq",
                          "SV.Props.C04.find_open_eq", "SV.Props.C04.enclose_eq"],
    "generated": ["C04:", "tables"],
    "allow_bv_decide": False,
    "nontrivial": _c04_nontrivial,
    "rule": "request = one structure (words, len, constructor) x one operation x a list of positions, or one kernel "
            "invocation; distinct request lines over a non-empty sequence / a word that is neither 0 nor all-ones",
    "explanation": "Lean theorems: model = linear-scan spec (see theorem list); correspondence: BalancedParens built by every "
                   "constructor and select support (rates 0..4096), free find_close/find_open/enclose, word kernels, L1/L2 "
                   "builders (SSE4.1 in the simd build) and the built index arrays vs the compiled model; the driver also "
                   "recomputes every answer from the linear-scan spec and reports MODEL-SPEC on any difference",
}
