"""C04 — balanced-parentheses navigation matches its linear-scan definition."""


def _c04_nontrivial(req, out):
    # non-trivial: a structure / free-function request over at least one word with at least one
    # position, or a kernel request on a word that is neither 0 nor all-ones
    t = req.split(" ")
    if len(t) < 3:
        return False
    if t[1] in ("bp", "idx"):
        return t[3] not in ("-", "0")
    if t[1] in ("free", "surplus"):
        return t[2] not in ("-", "0")
    return t[2] not in ("0", "ffffffffffffffff", "-")


EXTRACT = {
    "consts": [
        ("BP_WORDS_PER_RANK_BLOCK", "src/trees/bp.rs", "WORDS_PER_RANK_BLOCK"),
        ("BP_FACTOR_L1", "src/trees/bp.rs", "FACTOR_L1"),
        ("BP_FACTOR_L2", "src/trees/bp.rs", "FACTOR_L2"),
        ("BP_CS_POPPY_SAMPLE_RATE", "src/trees/bp.rs", "CS_POPPY_SAMPLE_RATE"),
    ],
    "tables": ["BYTE_MIN_EXCESS", "BYTE_MAX_EXCESS_REV", "BYTE_TOTAL_EXCESS", "BYTE_FIND_CLOSE"],
}

CFG = {
    "level": "proof",
    "level_text": "Lean 4 theorems over an executable model that follows src/trees/bp.rs. PROVED, for |ws| = ceil(len/64), any "
                  "stray bits, owned/borrowed storage, NoSelect/WithSelect/WithCsPoppy at any rate, default and simd builds: "
                  "byte_tables_eq (4 dumped tables = bit scans); rank1_eq, rank0_eq, select0_eq (+ total_ones) (len < 2^32; u32 "
                  "block ranks and 9-bit packed offsets lossless from WORDS_PER_RANK_BLOCK = 8), excess_eq_wrap / excess_eq, "
                  "depth_eq (i32-as-usize cast modelled; len < 2^31), is_open_eq, first_child_eq, method_find_open_eq, "
                  "method_enclose_eq (+parent), find_close_family_eq (method find_close, next_sibling, subtree_size), "
                  "find_close_from_eq (seven-state loop: invariant + termination measure), find_close_in_word_fast_eq (byte-table "
                  "fast path), index_exact and word_summaries_exact (L0/L1/L2 entries = block summaries; i8 clamp, i16/i32 folds "
                  "lossless from FACTOR_L1 = FACTOR_L2 = 32), block_min_sound, sse41_builders_eq_scalar (lane model of the SSE4.1 "
                  "L1/L2 builders = scalar builders), storage_strays_variant_irrelevant(_2); free functions find_close_eq (word "
                  "skipping; any |ws| >= ceil(len/64), i.e. surplus words allowed after the F1 repair), find_open_eq, enclose_eq; "
                  "select1_eq for NoSelect (None), WithSelect (sampling invariants, jump_to, scan_select) and WithCsPoppy at any "
                  "rate (sample bracket, core's binary-search partition_point, 9-bit offset walk; select_in_word = C02). "
                  "Nothing of the property is left unproved at model level; side condition len < 2^31 for the operations that keep an i32 excess - shown necessary for 2^31 <= len < 2^32 by depth_defect_beyond_i32 and find_close_false_match_mechanism (finding F13, manual replay corpus/C04/finding-13-big.manual). "
                  "Tie: tables and constants regenerated each run, every constructor x select support x build variant "
                  "diffed against the compiled model, itself cross-checked against the linear-scan spec.",
    "level_note": "select1_eq inherits C02's bv_decide certificate axiom (Kernels.clear_lowest) through select_ctz_eq; no other theorem does. Trusts Lean kernel, the table/constant extractor, popcount semantics, the SSE4.1 "
                  "lane semantics written in Model/BP.lean, and the differential harness. NEON builders unreachable on this host.",
    "technique": "Lean 4 proof (decide +kernel for tables, induction for directory / scans) + differential correspondence vs compiled model and spec",
    "variants": [{"features": []}, {"features": ["simd"]}],
    "lean_modules": ["SuccinctlyVerif.Props.C04"],
    "lean_files": ["SuccinctlyVerif/Props/C04.lean", "SuccinctlyVerif/Proof/BP.lean", "SuccinctlyVerif/Proof/BPTables.lean",
                   "SuccinctlyVerif/Proof/BPRank.lean", "SuccinctlyVerif/Proof/BPRankEq.lean", "SuccinctlyVerif/Proof/BPNavEq.lean",
                   "SuccinctlyVerif/Proof/BPScan.lean", "SuccinctlyVerif/Proof/BPWord.lean", "SuccinctlyVerif/Proof/BPEnclose.lean",
                   "SuccinctlyVerif/Proof/BPMethods.lean", "SuccinctlyVerif/Proof/BPClose.lean", "SuccinctlyVerif/Proof/BPClose2.lean",
                   "SuccinctlyVerif/Proof/BPClose3.lean", "SuccinctlyVerif/Proof/BPSibling.lean", "SuccinctlyVerif/Proof/BPIndex.lean",
                   "SuccinctlyVerif/Proof/BPIndex2.lean", "SuccinctlyVerif/Proof/BPFcf.lean", "SuccinctlyVerif/Proof/BPFcf2.lean",
                   "SuccinctlyVerif/Proof/BPFcf3.lean", "SuccinctlyVerif/Proof/BPFast.lean", "SuccinctlyVerif/Proof/BPFast2.lean",
                   "SuccinctlyVerif/Proof/BPSelect.lean", "SuccinctlyVerif/Proof/BPSelect0.lean", "SuccinctlyVerif/Proof/BPSse.lean",
                   "SuccinctlyVerif/Proof/BPSse2.lean", "SuccinctlyVerif/Proof/BPSse3.lean", "SuccinctlyVerif/Proof/BPSel1.lean",
                   "SuccinctlyVerif/Proof/BPSample.lean", "SuccinctlyVerif/Proof/BPPart.lean", "SuccinctlyVerif/Proof/BPSelWS.lean",
                   "SuccinctlyVerif/Proof/BPSelWS2.lean", "SuccinctlyVerif/Proof/BPSelCS.lean", "SuccinctlyVerif/Proof/BPSelCS2.lean",
                   "SuccinctlyVerif/Proof/BPSelCS3.lean", "SuccinctlyVerif/Proof/BPWrap.lean",
                   "SuccinctlyVerif/Model/BP.lean", "SuccinctlyVerif/Spec/BPNav.lean"],
    "required_theorems": ["SV.Props.C04.byte_tables_eq", "SV.Props.C04.rank1_eq", "SV.Props.C04.find_close_eq",
                          "SV.Props.C04.find_open_eq", "SV.Props.C04.enclose_eq", "SV.Props.C04.find_close_from_eq",
                          "SV.Props.C04.index_exact", "SV.Props.C04.find_close_family_eq", "SV.Props.C04.select0_eq",
                          "SV.Props.C04.sse41_builders_eq_scalar", "SV.Props.C04.select1_eq"],
    "generated": ["C04:", "tables"],
    "allow_bv_decide": True,   # only through C02's Kernels.selectCtz_eq (select_in_word), used by select1_eq
    "nontrivial": _c04_nontrivial,
    "rule": "request = one structure (words, len, constructor) x one operation x a list of positions, or one kernel "
            "invocation; distinct request lines over a non-empty sequence / a word that is neither 0 nor all-ones",
    "explanation": "Lean theorems: model = linear-scan spec (see theorem list); correspondence: BalancedParens built by every "
                   "constructor and select support (rates 0..4096), free find_close/find_open/enclose, word kernels, L1/L2 "
                   "builders (SSE4.1 in the simd build) and the built index arrays vs the compiled model; the driver also "
                   "recomputes every answer from the linear-scan spec and reports MODEL-SPEC on any difference",
}
