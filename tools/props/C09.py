"""C09 — JSON string escaping round-trips and escapes exactly the required set."""


def _c09_nontrivial(req, out):
    t = req.split(" ")
    return len(t) > 2 and t[2] != "-"


CFG = {
    "level": "proof",
    "level_text": "Lean 4 theorems over models of the four JSON string-body writers and the chunked escape scanner, for every "
                  "string of Unicode scalar values: each body decodes back to the string under the RFC 8259 section 7 decoder "
                  "(roundtrip_jq, roundtrip_jq_ascii, roundtrip_yq_ascii, roundtrip_yq - incl. \\uXXXX and surrogate pairs); a "
                  "character is escaped exactly when its convention requires it (escaped_iff_required_jq / _jq_ascii / _yq / "
                  "_yq_ascii; ascii_writers_emit_ascii); the conventions differ exactly at U+0008, U+000C, U+007F "
                  "(conventions_differ_exactly_at); the byte-level span-copy writer write_json_body_yq equals the per-character "
                  "yq convention (yq_writer_eq) and its scanner hits lie on character boundaries "
                  "(yq_writer_slices_on_char_boundaries); scanner_eq for the scalar, SSE2 and AVX2 tiers (first index >= start "
                  "holding quote, backslash or a byte < 0x20, else len; every length / start / chunk alignment) via the generic "
                  "chunked-scan lemma of Proof/Chunked and the lane lemma decided over all 256 bytes.",
    "level_note": "Trusts Lean kernel, the hand-written lane semantics of cmpeq/subs_epu8/movemask/trailing_zeros, the model of "
                  "String/char iteration as lists of scalar values, and the differential harness (all tiers via hooks).",
    "technique": "Lean 4 proof (decide over bytes, omega over hex/surrogate arithmetic) + differential correspondence of all four "
                 "writers and scalar/SSE2/AVX2/dispatch scanner tiers vs the compiled model",
    "variants": [{"features": []}],
    "lean_modules": ["SuccinctlyVerif.Props.C09"],
    "lean_files": ["SuccinctlyVerif/Props/C09.lean", "SuccinctlyVerif/Proof/Chunked.lean", "SuccinctlyVerif/Proof/Escape.lean",
                   "SuccinctlyVerif/Proof/EscapeRoundTrip.lean", "SuccinctlyVerif/Proof/EscapeYq.lean",
                   "SuccinctlyVerif/Model/Escape.lean"],
    "generated": ["C09:lanes"],
    "required_theorems": ["SV.Props.C09.scanner_eq_scalar", "SV.Props.C09.scanner_eq_sse2", "SV.Props.C09.scanner_eq_avx2",
                          "SV.Props.C09.escaped_iff_required_jq", "SV.Props.C09.escaped_iff_required_yq",
                          "SV.Props.C09.conventions_differ_exactly_at", "SV.Props.C09.yq_writer_eq",
                          "SV.Props.C09.yq_writer_slices_on_char_boundaries", "SV.Props.C09.roundtrip_jq",
                          "SV.Props.C09.roundtrip_jq_ascii", "SV.Props.C09.roundtrip_yq_ascii", "SV.Props.C09.roundtrip_yq",
                          "SV.Props.C09.lanes_generated_eq"],
    "allow_bv_decide": False,
    "nontrivial": _c09_nontrivial,
    "rule": "distinct request lines with a non-empty string / byte argument",
    "explanation": "writers: model output = implementation output for every generated string, and the model's output is "
                   "decoded by the RFC 8259 body decoder back to the input on every request; scanner: every tier = first "
                   "escapable index",
}


# Lane DAGs of the JSON escape scanner's match masks, regenerated from source on every run
# (tools/rs2lean.py kind "lanes"); Props/C09.lean `lanes_generated_eq` ties them to `jsonMaskLane`.
EXTRACT = {
    "lanes": [
        ("json_avx2_mask", "src/util/simd/escape.rs", "json_avx2_mask", {"inputs": ["chunk"], "outputs": ["return"]}),
        ("json_sse2_mask", "src/util/simd/escape.rs", "json_sse2_mask", {"inputs": ["chunk"], "outputs": ["return"]}),
    ],
}
