"""C09 — JSON string escaping round-trips and escapes exactly the required set."""


def _c09_nontrivial(req, out):
    t = req.split(" ")
    return len(t) > 2 and t[2] != "-"


CFG = {
    "level": "proof",
    "level_text": "Lean 4 theorems over models of the JSON string-body writers and the chunked escape scanner: scanner_eq for "
                  "the SSE2 and AVX2 tiers (first index >= start holding quote, backslash or a byte < 0x20, else len; every "
                  "length / start / chunk alignment) via the generic chunked-scan lemma of Proof/Chunked (movemask != 0 => "
                  "offset + ctz mask) and the lane lemma decided over all 256 bytes; escaped_iff_required per character for the "
                  "jq, jq-ascii and yq-ascii conventions. PARTIAL: round trip proved for ASCII characters only "
                  "(roundtrip_partial); non-ASCII \\uXXXX/surrogate arithmetic, the lift to whole strings, the byte-level yq "
                  "span-copy writer and yq_writer_slices_on_char_boundaries are not proved - they are cross-checked against the "
                  "RFC 8259 body decoder on every correspondence request (all 1.1M scalar values in the thorough tier).",
    "level_note": "Trusts Lean kernel, the hand-written lane semantics of cmpeq/subs_epu8/movemask/trailing_zeros, the model of "
                  "String/char iteration as lists of scalar values, and the differential harness (all tiers via hooks).",
    "technique": "Lean 4 proof (decide over bytes, omega over hex/surrogate arithmetic) + differential correspondence of all four "
                 "writers and scalar/SSE2/AVX2/dispatch scanner tiers vs the compiled model",
    "variants": [{"features": []}],
    "lean_modules": ["SuccinctlyVerif.Props.C09"],
    "lean_files": ["SuccinctlyVerif/Props/C09.lean", "SuccinctlyVerif/Proof/Chunked.lean", "SuccinctlyVerif/Proof/Escape.lean",
                   "SuccinctlyVerif/Model/Escape.lean"],
    "generated": [],
    "required_theorems": ["SV.Props.C09.scanner_eq_sse2", "SV.Props.C09.scanner_eq_avx2", "SV.Props.C09.escaped_iff_required_jq"],
    "allow_bv_decide": False,
    "nontrivial": _c09_nontrivial,
    "rule": "distinct request lines with a non-empty string / byte argument",
    "explanation": "writers: model output = implementation output for every generated string, and the model's output is "
                   "decoded by the RFC 8259 body decoder back to the input on every request; scanner: every tier = first "
                   "escapable index",
}
