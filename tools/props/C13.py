"""C13 — UTF-8 validation matches the Unicode definition on every engine."""
import hashlib, os, re

_ROOT = os.path.dirname(os.path.dirname(os.path.dirname(os.path.abspath(__file__))))
_REPO = os.environ.get("VERIF_REPO", "/repo")
_SYNTH = os.path.join(_ROOT, "out", "c13_kernels.rs")


def _synthesize():
    """Cut the straight-line word kernels out of loops in src/text/utf8/{mod,broadword}.rs into
    stand-alone `fn`s that tools/rs2lean.py accepts (it only takes whole functions).  Runs on every
    import, i.e. on every ./check, so the generated Lean kernels always follow the working tree; if a
    line is no longer found the fn is omitted and the extractor reports a translation problem."""
    out = []
    try:
        m = open(os.path.join(_REPO, "src/text/utf8/mod.rs")).read()
        b = open(os.path.join(_REPO, "src/util/broadword.rs")).read()
        w = open(os.path.join(_REPO, "src/text/utf8/broadword.rs")).read()
        for name in ("L8", "H8"):
            mm = re.search(r"pub const " + name + r": u64 = ([^;]+);", b)
            if mm:
                out.append(f"const {name}: u64 = {mm.group(1)};")
        mm = re.search(r"\bconst HI: u64 = ([^;]+);", w)
        if mm:
            out.append(f"const HI: u64 = {mm.group(1)};")
        # skip_ascii: `let non_ascii = word & H8;`
        mm = re.search(r"fn skip_ascii\b.*?(let non_ascii = [^;]+;)", m, re.S)
        if mm:
            out.append("fn utf8_non_ascii(word: u64) -> u64 {\n    %s\n    non_ascii\n}" % mm.group(1))
        # line_and_column: NEWLINES / LOW7 consts, `zeros`, `mask`
        mm = re.search(r"fn line_and_column\b.*?\n}\n", m, re.S)
        if mm:
            body = mm.group(0)
            parts = []
            for pat in (r"const NEWLINES: u64 = [^;]+;", r"const LOW7: u64 = [^;]+;",
                        r"let zeros = [^;]+;", r"let mask = [^;]+;"):
                x = re.search(pat, body)
                if x:
                    parts.append(x.group(0).replace("b'\\n'", "0x0A"))
            if len(parts) == 4:
                out.append("fn utf8_newline_mask(word: u64) -> u64 {\n    " + "\n    ".join(parts) + "\n    mask\n}")
            # how the line count is accumulated.  (a) the one `line += <expr>;` of the word loop is
            # translated (`utf8_line_inc`, used by the model); the fn is only emitted when the function
            # has exactly the expected shape: one such statement in the word loop, one `line += 1;` in the
            # byte loop, none after the loops - otherwise the extractor reports a translation problem.
            # (b) the whole function (comments stripped, whitespace normalised) is pinned by a hash
            # constant that Props/C13.line_and_column_source_pinned compares against the text the model
            # was written from: ANY change to `line_and_column` breaks that obligation.
            nc = " ".join(re.sub(r"//[^\n]*", "", body).split())
            out.append("const UTF8_LINECOL_SRC_HASH: u64 = 0x%s;" % hashlib.sha256(nc.encode()).hexdigest()[:15])
            loop = re.search(r"while pos \+ 8 <= prefix\.len\(\) \{(.*?)\n    \}\n", body, re.S)
            if loop:
                incs = re.findall(r"\bline \+= ([^;]+);", loop.group(1))
                allincs = re.findall(r"\bline \+= ([^;]+);", body)
                if len(incs) == 1 and sorted(allincs) == sorted([incs[0], "1"]):
                    out.append("fn utf8_line_inc(mask: u64) -> u64 {\n    %s\n}" % incs[0])
        # broadword accepts: `let hi = word & HI;` and `block & HI`
        mm = re.search(r"fn accepts\b.*?(let hi = [^;]+;)", w, re.S)
        if mm:
            out.append("fn utf8_bw_hi(word: u64) -> u64 {\n    %s\n    hi\n}" % mm.group(1))
        mm = re.search(r"fn accepts\b.*?if (block & HI) == 0", w, re.S)
        if mm:
            out.append("fn utf8_bw_block_hi(block: u64) -> u64 {\n    %s\n}" % mm.group(1))
    except OSError:
        pass
    os.makedirs(os.path.dirname(_SYNTH), exist_ok=True)
    txt = "\n\n".join(out) + "\n"
    if not os.path.exists(_SYNTH) or open(_SYNTH).read() != txt:
        with open(_SYNTH, "w") as f:
            f.write(txt)


_synthesize()


def _c13_nontrivial(req, out):
    # non-trivial: a validation / line-col request over at least 2 bytes, or any codec request
    t = req.split(" ")
    if len(t) < 3:
        return False
    if t[1] in ("val", "valx", "lc", "skip"):
        return len(t[2]) >= 4
    return True


CFG = {
    "level": "proof",
    "level_text": "Lean 4 theorems over models of all three engines, for every byte string: validate_utf8_scalar (with the "
                  "skip_ascii word loop), broadword::accepts (load_block/load_word/first_high_byte/validate_sequence) and the "
                  "AVX2 accept kernel (lane predicate of check_block over c/prev1/prev2/prev3 on the zero-padded input incl. "
                  "the always-run tail block) accept exactly the language of the Unicode Table 3-7 automaton (scalar_ok_iff, "
                  "broadword_accept_iff, avx2_accept_iff), hence all engines return the scalar validator's result "
                  "(engines_agree); on rejection the kind is the first violated rule, offset = validPrefixLen + index of the "
                  "offending continuation byte (error_kind_and_offset_partial, error_offset_validPrefixLen, "
                  "validPrefixLen_spec), line/column = LF line/column of that offset through the 8-byte newline kernel "
                  "(error_linecol, line_and_column_eq); encode/decode round trips for every scalar value (decode_encode, "
                  "encode_decode, encode_none_iff_not_scalar), also as statements about the spec codec of Spec/Utf8 via the model-to-spec "
                  "links encode_eq_spec / decode_eq_spec (spec_decode_encode, spec_encode_decode). The property's 'offset = longest valid prefix' holds for five "
                  "kinds (error_offset_partial) and is refuted for InvalidContinuationByte (error_offset_refuted, finding F6, "
                  "[C3 28]).",
    "level_note": "Trusts Lean kernel + bv_decide certificate checker (word/lane lemmas in Proof/Utf8*.lean), the rs2lean "
                  "translation of the word kernels cut from the source, the lane semantics of the AVX2 intrinsics "
                  "(alignr/permute2x128 as 'previous N bytes', their source text pinned in Generated/C13.lean; the lane "
                  "expression of check_block is regenerated from source by the lanes translator and proved equal to the model's, "
                  "theorem lanes_generated_eq), from_le/ne_bytes on a little-endian host, and the differential harness.",
    "technique": "Lean 4 proof (automaton simulation + bv_decide lane/word lemmas); differential correspondence of scalar, "
                 "broadword, raw AVX2 kernel, simd wrapper and dispatcher vs the compiled model",
    "variants": [{"features": []}],
    "lean_modules": ["SuccinctlyVerif.Props.C13"],
    "lean_files": ["SuccinctlyVerif/Props/C13.lean", "SuccinctlyVerif/Proof/Utf8.lean", "SuccinctlyVerif/Proof/Utf8Engines.lean",
                   "SuccinctlyVerif/Proof/Utf8Scalar.lean", "SuccinctlyVerif/Proof/Utf8ScalarMain.lean",
                   "SuccinctlyVerif/Proof/Utf8Avx2.lean", "SuccinctlyVerif/Proof/Utf8Codec.lean",
                   "SuccinctlyVerif/Proof/Utf8Broadword.lean", "SuccinctlyVerif/Proof/Utf8BroadwordMain.lean",
                   "SuccinctlyVerif/Proof/Utf8Prefix.lean", "SuccinctlyVerif/Proof/Utf8LineCol.lean",
                   "SuccinctlyVerif/Proof/Utf8RoundTrip.lean", "SuccinctlyVerif/Proof/Utf8SpecLink.lean",
                   "SuccinctlyVerif/Model/Utf8.lean", "SuccinctlyVerif/Spec/Utf8.lean"],
    "required_theorems": ["SV.Props.C13.scalar_ok_iff", "SV.Props.C13.avx2_accept_iff", "SV.Props.C13.simd_engine_agrees", "SV.Props.C13.broadword_accept_iff", "SV.Props.C13.engines_agree", "SV.Props.C13.validPrefixLen_spec", "SV.Props.C13.error_linecol", "SV.Props.C13.line_and_column_source_pinned", "SV.Props.C13.line_increment_generated_eq", "SV.Props.C13.decode_encode", "SV.Props.C13.encode_decode",
                          "SV.Props.C13.encode_eq_spec", "SV.Props.C13.decode_eq_spec", "SV.Props.C13.spec_decode_encode",
                          "SV.Props.C13.error_kind_and_offset_partial", "SV.Props.C13.error_offset_refuted",
                          "SV.Props.C13.lanes_generated_eq"],
    "generated": ["C13:"],
    "allow_bv_decide": True,
    "nontrivial": _c13_nontrivial,
    "rule": "distinct request lines: validation / line-column / skip requests over >= 2 bytes, and every codec request",
    "explanation": "Lean theorems: each engine model accepts exactly well-formed UTF-8 and the scalar model's error is "
                   "(first violated rule, valid prefix + continuation index, LF line/column); correspondence: "
                   "validate_utf8 / _scalar / _broadword / _simd, raw broadword and AVX2 kernels, line_and_column, "
                   "skip_ascii, sequence_length, decode_code_point, encode_code_point vs the compiled model",
}

# path relative to the repository root (the extractor joins it onto VERIF_REPO), so that the generated
# file's text does not depend on where the workspace lives
_REL = os.path.relpath(_SYNTH, _REPO)
EXTRACT = {
    # the `err` lane DAG of `check_block`, regenerated from source on every run (tools/rs2lean.py kind
    # "lanes"): inputs are the chunk lane and the three shifted inputs prev1/prev2/prev3, whose
    # cross-lane definitions (permute2x128 + alignr) are recorded as source text, not translated
    "lanes": [
        ("check_block", "src/text/utf8/simd_x86.rs", "check_block",
         {"inputs": ["chunk", "prev1", "prev2", "prev3"], "outputs": ["err"]}),
    ],
    "consts": [
        ("UTF8_LINECOL_SRC_HASH", _REL, "UTF8_LINECOL_SRC_HASH"),
    ],
    "kernels": [
        ("utf8_non_ascii", _REL, "utf8_non_ascii", None),
        ("utf8_newline_mask", _REL, "utf8_newline_mask", None),
        ("utf8_line_inc", _REL, "utf8_line_inc", None),
        ("utf8_bw_hi", _REL, "utf8_bw_hi", None),
        ("utf8_bw_block_hi", _REL, "utf8_bw_block_hi", None),
    ],
}
