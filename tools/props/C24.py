"""C24 — jq mode matches jq 1.7.1 outside documented divergences (model-as-oracle differential)."""
import os

_ROOT = os.path.dirname(os.path.dirname(os.path.dirname(os.path.abspath(__file__))))
_BASE = ("(a) replay of the repository's recorded jq 1.7.1 behaviour (golden cases with args `-c`, all error probes in "
         "caught form) through the freshly built `succinctly jq` binary and through the Lean model in its jq-1.7.1 dialect, "
         "each side comparing its own output with the recording embedded in the request; (b) generated core-fragment "
         "programs x inputs through the CLI (stdout values, stderr message, exit status) against the model as oracle, "
         "programs using a documented divergence (docs/compliance/jq/limitations.md) filtered out; includes an order class "
         "(sort/unique/min/max/group_by/< on same-key-set objects with permuted insertion orders)")


def _verdict(req, impl, model):
    op = req.split(" ", 2)[1] if " " in req else ""
    if op == "mcase":
        # recorded case replayed through the oracle only (the CLI replays it in the thorough tier)
        return "disagree" if model.startswith("MODEL-MISMATCH") else "skip"
    if op == "case":
        if impl != "REPRO":
            return "disagree"          # the CLI does not reproduce recorded jq 1.7.1 behaviour
        if model.startswith("MODEL-MISMATCH"):
            return "disagree"          # the oracle itself contradicts the recording: a model bug
        return "skip" if model.startswith("OUT-OF-FRAGMENT") else "agree"
    # op == "run": CLI against the model
    if impl.startswith("DOCUMENTED-DIVERGENCE"):
        return "skip"
    if "OUT-OF-FRAGMENT" in model:
        return "skip"
    if impl in ("NO-CLI", "PANIC") or impl.startswith("CLI-COMPILE-ERROR") or impl.startswith("CLI-OUTPUT-BEFORE-MARKER"):
        return "disagree"
    return "agree" if impl == model else "disagree"


def _counters(triples):
    cases = [t for t in triples if t[0].split(" ", 2)[1] == "case"]
    allc = [t for t in triples if t[0].split(" ", 2)[1] in ("case", "mcase") and not t[0].split(" ", 3)[2].startswith("F")]
    runs = [t for t in triples if t[0].split(" ", 2)[1] == "run"]
    return {
        "recorded_cases": len(cases),
        "recorded_cases_cli_reproduces": sum(1 for t in cases if t[1] == "REPRO"),
        "recorded_cases_model_reproduces": sum(1 for t in cases if t[2] == "REPRO"),
        "recorded_cases_model_no_verdict": sum(1 for t in cases if t[2].startswith("OUT-OF-FRAGMENT")),
        "recorded_cases_model_mismatch": sum(1 for t in cases if t[2].startswith("MODEL-MISMATCH")),
        "recorded_corpus_total": len(allc),
        "recorded_corpus_model_reproduces": sum(1 for t in allc if t[2] == "REPRO"),
        "recorded_corpus_model_no_verdict": sum(1 for t in allc if t[2].startswith("OUT-OF-FRAGMENT")),
        "recorded_corpus_model_mismatch": sum(1 for t in allc if t[2].startswith("MODEL-MISMATCH")),
        "generated_runs": len(runs),
        "generated_runs_documented_divergence_skipped": sum(1 for t in runs if t[1].startswith("DOCUMENTED-DIVERGENCE")),
        "generated_runs_model_no_verdict": sum(1 for t in runs if "OUT-OF-FRAGMENT" in t[2] and not t[1].startswith("DOCUMENTED-DIVERGENCE")),
        "generated_runs_compared": sum(1 for t in runs if "OUT-OF-FRAGMENT" not in t[2] and not t[1].startswith("DOCUMENTED-DIVERGENCE")),
    }


CFG = {
    "level": "other",
    "level_text": "model-as-oracle differential: the Lean jq model (jq-1.7.1 dialect) is validated against every recorded "
                  "golden / error probe inside its fragment, and the CLI is replayed against the same recordings; divergences "
                  "of succinctly from jq 1.7.1 found by the C23/C24 model comparison are listed as findings",
    "level_note": "no jq 1.7.1 binary in the sandbox (jq 1.6 used only as tiebreak); generated-program comparison of the CLI "
                  "against the model is carried by C23's in-process comparison (same evaluator as the CLI) — the CLI stream "
                  "here replays the recorded corpus and the per-finding cases",
    "technique": "differential replay of recorded reference behaviour through CLI and Lean model",
    "variants": [{"features": [], "env": {"SV_CLI": os.path.join(_ROOT, ".build", "target-cli", "release", "succinctly"),
                                          "SV_C24_DIR": os.path.join(_ROOT, "corpus", "C24")}}],
    "needs_cli": True,
    "lean_modules": ["SuccinctlyVerif.Props.C23"],
    "lean_files": ["SuccinctlyVerif/Model/Jq.lean", "SuccinctlyVerif/Model/JqParse.lean", "SuccinctlyVerif/Model/JqPrelude.lean"],
    "generated": [],
    "verdict": _verdict,
    "counters": _counters,
    "nontrivial": lambda req, out: True,
    "rule": "one request per recorded jq 1.7.1 case (golden or error probe) or per-finding case",
    "explanation": _BASE,
    "trusted_base": ["that the Lean jq model (jq-1.7.1 dialect) is jq 1.7.1 on its fragment: supported by the replay counts in `explanation`"],
}
