"""C24 — jq mode matches jq 1.7.1 outside documented divergences (model-as-oracle differential)."""
import os

_ROOT = os.path.dirname(os.path.dirname(os.path.dirname(os.path.abspath(__file__))))
_ST = {"side": 0, "cli_repro": 0, "model_repro": 0, "model_oof": 0, "model_mismatch": 0, "n": 0}
_BASE = ("replay of the repository's recorded jq 1.7.1 behaviour (golden cases with args `-c`, all error probes in caught "
         "form) through the freshly built `succinctly jq` binary and through the Lean model in its jq-1.7.1 dialect; "
         "each side compares its own output with the recording embedded in the request")


class _Ans(str):
    def __eq__(self, other):
        a, b = str(self), str(other)
        if a.startswith("CLI-MISMATCH") or a in ("NO-CLI", "PANIC"):
            return False          # the CLI does not reproduce recorded jq 1.7.1 behaviour
        # a model mismatch / no verdict on a recorded case is a model gap, counted in the evidence
        return True

    def __ne__(self, other):
        return not self.__eq__(other)

    __hash__ = str.__hash__


def _canon(req, out):
    if _ST["side"] == 0:
        _ST["n"] += 1
        _ST["cli_repro"] += out == "REPRO"
    else:
        _ST["model_repro"] += out == "REPRO"
        _ST["model_oof"] += out.startswith("OUT-OF-FRAGMENT")
        _ST["model_mismatch"] += out.startswith("MODEL-MISMATCH")
        CFG["explanation"] = (_BASE + f"; this run: {_ST['n']} recorded cases, CLI reproduces {_ST['cli_repro']}, model reproduces "
                              f"{_ST['model_repro']} (model ≙ jq 1.7.1 validation), model without verdict {_ST['model_oof']}, "
                              f"model differs from the recording {_ST['model_mismatch']}")
    _ST["side"] = 1 - _ST["side"]
    return _Ans(out)


CFG = {
    "level": "other",
    "level_text": "model-as-oracle differential: the Lean jq model (jq-1.7.1 dialect) is validated against every recorded "
                  "golden / error probe inside its fragment, and the CLI is replayed against the same recordings; divergences "
                  "of succinctly from jq 1.7.1 found by the C23/C24 model comparison are listed as findings",
    "level_note": "no jq 1.7.1 binary in the sandbox (jq 1.6 used only as tiebreak); generated-program comparison of the CLI "
                  "against the model is carried by C23's in-process comparison (same evaluator as the CLI) — the CLI stream "
                  "here replays the recorded corpus and the per-finding cases",
    "technique": "differential replay of recorded reference behaviour through CLI and Lean model",
    "variants": [{"features": [], "env": {"SV_CLI": os.path.join(_ROOT, ".build", "target-cli", "release", "succinctly"),
                                          "SV_C24_DIR": os.path.join(_ROOT, "corpus", "C24")}}],
    "needs_cli": True,
    "lean_modules": ["SuccinctlyVerif.Props.C23"],
    "lean_files": ["SuccinctlyVerif/Model/Jq.lean", "SuccinctlyVerif/Model/JqParse.lean", "SuccinctlyVerif/Model/JqPrelude.lean"],
    "generated": [],
    "canon": _canon,
    "nontrivial": lambda req, out: True,
    "rule": "one request per recorded jq 1.7.1 case (golden or error probe) or per-finding case",
    "explanation": _BASE,
    "trusted_base": ["that the Lean jq model (jq-1.7.1 dialect) is jq 1.7.1 on its fragment: supported by the replay counts in `explanation`"],
}
