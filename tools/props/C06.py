"""C06 — JSON index navigation reproduces every valid document's value."""


def _c06_nontrivial(req, out):
    t = req.split(" ")
    return len(t) > 2 and len(t[-1] if t[1] == "dec" else t[3] if t[1] == "nav" else t[2]) >= 4


CFG = {
    "level": "proof",
    "level_text": "Lean 4 theorems over an executable model of JsonIndex navigation, for every document rendered from a JSON "
                  "value tree with arbitrary RFC 8259 whitespace (Doc of Spec/JsonSimple): index_structure (BP = balanced tree "
                  "encoding with a leaf 10 per scalar and key, IB = first bytes of the node tokens in document order); "
                  "navigate_eq (walking value()/uncons/children/as_str/raw_bytes from the root = value of the tree: fields in "
                  "source order with duplicates, elements, decoded strings, numbers as literal text, booleans, null); "
                  "find_last_dup (lookup by name = last field with that decoded key; None as soon as a key fails to decode); "
                  "and for every byte string: decode_escapes_eq (= specification decoder incl. surrogate pairs and every error), "
                  "string_end_eq, raw_and_escaped_eq, number_span_eq. raw_range_eq_partial: text_range = token / bracketed span "
                  "for every located value or key and for the root; the packaging over all nodes of the walk is not exported. "
                  "Not proved: the bridge from Doc renderings to C08's Valid grammar (Doc allows any byte >= 0x20 and any "
                  "\\uXXXX inside strings, a superset; strings that do not decode are compared as errors); the preorder "
                  "enumeration of node start offsets as a tree-level function (the IB statement is at token level); "
                  "Prims.fast (array-backed primitives the driver uses for documents > 3000 bytes) is cross-checked against "
                  "the specification primitives on every document <= 1500 bytes but not proved equal.",
    "level_note": "BalancedParens::{is_open, find_close, enclose, rank1, first_child, next_sibling, parent} are taken at their "
                  "Spec/BP / Spec/Bits definitions (C04, still being built), ib_select1_from at C07's text_position_eq, the "
                  "semi-index at C05's reference, core::str::from_utf8 at Table 3-7 well-formedness, char::from_u32 at "
                  "'is a scalar value'; as_f64 is not modelled (trusted core parsing).",
    "technique": "Lean 4 proof over an executable model of JsonIndex navigation; differential correspondence (whole navigated "
                 "tree dump) vs compiled model, plus an in-process reference reader verdict",
    "variants": [{"features": []}],
    "lean_modules": ["SuccinctlyVerif.Props.C06"],
    "lean_files": ["SuccinctlyVerif/Props/C06.lean", "SuccinctlyVerif/Proof/JsonNav.lean",
                   "SuccinctlyVerif/Proof/JsonNavTree.lean", "SuccinctlyVerif/Proof/JsonNavDecode.lean", "SuccinctlyVerif/Proof/JsonNavRange.lean",
                   "SuccinctlyVerif/Model/JsonNav.lean"],
    "generated": ["C05:", "tables"],
    "allow_bv_decide": False,
    "required_theorems": ["SV.Props.C06.index_structure", "SV.Props.C06.string_end_eq", "SV.Props.C06.number_span_eq",
                          "SV.Props.C06.navigate_eq", "SV.Props.C06.find_last_dup", "SV.Props.C06.decode_escapes_eq", "SV.Props.C06.raw_range_eq", "SV.Props.C06.navigate_eq_composed", "SV.Props.C06.prims_fast_eq", "SV.Props.C06.index_structure_preorder"],
    "nontrivial": _c06_nontrivial,
    "rule": "request = one document whose whole navigated tree is dumped, or one text-level kernel call; distinct request "
            "lines with at least 2 payload bytes",
    "explanation": "Lean theorems as in level_text; correspondence: the whole navigated tree of generated valid documents "
                   "(kind, cursor, text position, text_range, parent/sibling/child links, decoded strings, raw_and_escaped, "
                   "number literal and as_i64, find/find_cursor for keys, get/get_fast for elements) dumped by the Rust "
                   "implementation and by the model, plus an independent in-process reference reader verdict (TREE-OK); "
                   "decode_escapes, string end and nested_number_span on arbitrary bytes",
}
