"""C06 — JSON index navigation reproduces every valid document's value."""


def _c06_nontrivial(req, out):
    t = req.split(" ")
    return len(t) > 2 and len(t[-1] if t[1] == "dec" else t[3] if t[1] == "nav" else t[2]) >= 4


CFG = {
    "level": "proof",
    "level_text": "Lean 4 theorems over an executable model of JsonIndex navigation, for every document rendered from a JSON "
                  "value tree with arbitrary RFC 8259 whitespace (Doc of Spec/JsonSimple), proved to be exactly the Valid texts of "
                  "C08's grammar when the strings are well-formed (docs_are_valid_texts / valid_texts_are_docs): "
                  "index_structure + index_structure_preorder (BP = balanced tree encoding with a leaf 10 per scalar and key; the "
                  "k-th interest bit = first byte of the k-th node in preorder); navigate_eq and navigate_eq_composed (walking "
                  "value()/uncons/children/as_str/raw_bytes from the root = value of the tree, the latter over the composed model "
                  "C05 builder + C04 BalancedParens + C07 IB select with no navigation hypotheses, for texts < 2^30 bytes); "
                  "find_last_dup; raw_range_eq (text_range of EVERY node of the walk = its token / bracketed span); and for every "
                  "byte string decode_escapes_eq, string_end_eq, raw_and_escaped_eq, number_span_eq. prims_fast_eq: the driver's "
                  "array-backed primitives are the specification primitives.",
    "level_note": "BalancedParens primitives are discharged by C04 (is_open_eq, find_close_family_eq, method_enclose_eq, rank1_eq; "
                  "side conditions |words| = ceil(len/64), len < 2^31), ib_select1_from by C07 text_position_eq, the semi-index by "
                  "C05. Still trusted: core::str::from_utf8 = Table 3-7 well-formedness, char::from_u32 = 'is a scalar value'; "
                  "as_f64 is not modelled (trusted core parsing).",
    "technique": "Lean 4 proof over an executable model of JsonIndex navigation; differential correspondence (whole navigated "
                 "tree dump) vs compiled model, plus an in-process reference reader verdict",
    "variants": [{"features": []}],
    "lean_modules": ["SuccinctlyVerif.Props.C06"],
    "lean_files": ["SuccinctlyVerif/Props/C06.lean", "SuccinctlyVerif/Proof/JsonNav.lean",
                   "SuccinctlyVerif/Proof/JsonNavTree.lean", "SuccinctlyVerif/Proof/JsonNavDecode.lean", "SuccinctlyVerif/Proof/JsonNavRange.lean", "SuccinctlyVerif/Proof/JsonNavFull.lean",
                   "SuccinctlyVerif/Proof/JsonNavFast.lean", "SuccinctlyVerif/Proof/JsonBridge.lean", "SuccinctlyVerif/Model/JsonNavFull.lean",
                   "SuccinctlyVerif/Model/JsonNav.lean"],
    "generated": ["C05:", "tables"],
    "allow_bv_decide": False,
    "required_theorems": ["SV.Props.C06.index_structure", "SV.Props.C06.string_end_eq", "SV.Props.C06.number_span_eq",
                          "SV.Props.C06.navigate_eq", "SV.Props.C06.find_last_dup", "SV.Props.C06.decode_escapes_eq", "SV.Props.C06.raw_range_eq", "SV.Props.C06.navigate_eq_composed", "SV.Props.C06.prims_fast_eq", "SV.Props.C06.index_structure_preorder", "SV.Props.C06.docs_are_valid_texts", "SV.Props.C06.valid_texts_are_docs"],
    "nontrivial": _c06_nontrivial,
    "rule": "request = one document whose whole navigated tree is dumped, or one text-level kernel call; distinct request "
            "lines with at least 2 payload bytes",
    "explanation": "Lean theorems as in level_text; correspondence: the whole navigated tree of generated valid documents "
                   "(kind, cursor, text position, text_range, parent/sibling/child links, decoded strings, raw_and_escaped, "
                   "number literal and as_i64, find/find_cursor for keys, get/get_fast for elements) dumped by the Rust "
                   "implementation and by the model, plus an independent in-process reference reader verdict (TREE-OK); "
                   "decode_escapes, string end and nested_number_span on arbitrary bytes",
}
