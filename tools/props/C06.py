"""C06 — JSON index navigation reproduces every valid document's value."""


def _c06_nontrivial(req, out):
    t = req.split(" ")
    return len(t) > 2 and len(t[-1] if t[1] == "dec" else t[3] if t[1] == "nav" else t[2]) >= 4


CFG = {
    "level": "proof",
    "level_text": "PLACEHOLDER",
    "level_note": "BalancedParens::{is_open, find_close, enclose, rank1, first_child, next_sibling, parent} are taken at their "
                  "Spec/BP / Spec/Bits definitions (C04, still being built), ib_select1_from at C07's text_position_eq, the "
                  "semi-index at C05's reference, core::str::from_utf8 at Table 3-7 well-formedness, char::from_u32 at "
                  "'is a scalar value'; as_f64 is not modelled (trusted core parsing).",
    "technique": "Lean 4 proof over an executable model of JsonIndex navigation; differential correspondence (whole navigated "
                 "tree dump) vs compiled model, plus an in-process reference reader verdict",
    "variants": [{"features": []}],
    "lean_modules": ["SuccinctlyVerif.Props.C06"],
    "lean_files": ["SuccinctlyVerif/Props/C06.lean", "SuccinctlyVerif/Proof/JsonNav.lean",
                   "SuccinctlyVerif/Proof/JsonNavTree.lean", "SuccinctlyVerif/Proof/JsonNavDecode.lean",
                   "SuccinctlyVerif/Model/JsonNav.lean"],
    "generated": ["C05:", "tables"],
    "allow_bv_decide": False,
    "required_theorems": ["SV.Props.C06.index_structure", "SV.Props.C06.string_end_eq", "SV.Props.C06.number_span_eq",
                          "SV.Props.C06.navigate_eq", "SV.Props.C06.find_last_dup", "SV.Props.C06.decode_escapes_eq"],
    "nontrivial": _c06_nontrivial,
    "rule": "request = one document whose whole navigated tree is dumped, or one text-level kernel call; distinct request "
            "lines with at least 2 payload bytes",
    "explanation": "PLACEHOLDER",
}
