"""C16 — YAML index does not depend on the SIMD dispatch level."""


def _c16_nontrivial(req, out):
    # kernel request: non-trivial when the buffer is at least one SSE2 chunk long (the vector loop
    # runs); idx request: the index was built (digest starts with "ok") and the input is >= 16 bytes
    t = req.split(" ")
    if len(t) < 3:
        return False
    if t[1] in ("clamp", "disp"):
        return True
    if t[1] == "idx":
        return len(t[2]) >= 32 and out.startswith("ok")
    buf = t[3] if t[1] == "cl" else t[2]
    return len(buf) >= 32


CFG = {
    "level": "proof",
    "level_text": "Kernel level (proof): Lean 4 theorems that the lane-level models of the AVX2 (32-byte loop + one "
                  "16-byte step + scalar tail) and SSE2 (16-byte loop + scalar tail) kernels find_quote_or_escape, "
                  "find_single_quote, find_newline, count_leading_spaces, find_block_scalar_end, parse_anchor_name and "
                  "classify_yaml_chars<HAS_CR> return exactly what the scalar kernels of simd/scalar.rs / simd/mod.rs "
                  "return, for every buffer, start, end and min_indent; parse_simd_clamp recognises exactly the "
                  "documented spellings and can only lower the level. Whole index (translation validation, "
                  "implementation vs implementation): the composition step 'the parser consumes the kernels only "
                  "through these functions, hence the index is level-independent' is NOT formalised (parser "
                  "unmodelled); instead every generated input is loaded under the AVX2 build, the same build with "
                  "SUCCINCTLY_SIMD=sse2 and the scalar-yaml build, and the digests of every YamlIndex accessor, the "
                  "Debug dump of all private fields and the JSON/YAML renderings are compared across the three.",
    "level_note": "Cross-variant mechanism: op `idx` is listed in xvariant_ops, so tools/run.py compares each variant's "
                  "implementation answer (digest line) with the first variant's answer for the same request line; the "
                  "driver's answer for `idx` is not used. Any cross-level difference is a mismatching line, i.e. a "
                  "violation with a replay file. Each variant also emits `disp`, which records avx2_enabled() of that "
                  "process and is diffed against the model of the clamp, so a clamp spelling that stopped working "
                  "(variant 2 silently running AVX2) is a violation, not a vacuous pass. Kernel slots whose level is not "
                  "compiled into a build (scalar-yaml) are answered by that build's public entry point. Trusts: Lean "
                  "kernel, the lane semantics of cmpeq/or/movemask/trailing_zeros in Model/YamlSimd.lean, the "
                  "differential harness. NEON/broadword backends unreachable on this host.",
    "technique": "Lean 4 proof (generic chunked-scan lemma + 256-case lane lemmas) over hand-written lane-level kernel "
                 "models; differential correspondence per dispatch level; cross-configuration translation validation of "
                 "the whole index",
    "variants": [{"features": []},
                 {"features": [], "env": {"SUCCINCTLY_SIMD": "sse2"}},
                 {"features": ["scalar-yaml"]}],
    "xvariant_ops": ["idx"],
    "lean_modules": ["SuccinctlyVerif.Props.C16"],
    "lean_files": ["SuccinctlyVerif/Props/C16.lean", "SuccinctlyVerif/Proof/YamlChunked.lean",
                   "SuccinctlyVerif/Proof/YamlKernels.lean", "SuccinctlyVerif/Model/YamlSimd.lean",
                   "SuccinctlyVerif/Spec/YamlKernels.lean"],
    "generated": ["C16:lanes"],
    "required_theorems": [
        "SV.Props.C16.find_quote_or_escape_kernel_eq_scalar", "SV.Props.C16.find_single_quote_kernel_eq_scalar",
        "SV.Props.C16.find_newline_kernel_eq_scalar", "SV.Props.C16.count_leading_spaces_kernel_eq_scalar",
        "SV.Props.C16.find_block_scalar_end_kernel_eq_scalar", "SV.Props.C16.find_block_scalar_end_eq_scalar",
        "SV.Props.C16.parse_anchor_name_kernel_eq_scalar", "SV.Props.C16.parse_anchor_name_eq_scalar",
        "SV.Props.C16.classify_yaml_chars_eq_spec", "SV.Props.C16.classify_sse2_is_low_half",
        "SV.Props.C16.kernels_level_independent", "SV.Props.C16.clamp_total",
        "SV.Props.C16.lanes_generated_eq", "SV.Props.C16.plain_scalar_skip_source_pinned",
    ],
    "trusted_base": [
        "C16: lane semantics of _mm{,256}_cmpeq_epi8 / _or_si* / _movemask_epi8, u32::trailing_zeros, `!mask`, "
        "`mask &= mask - 1` as written in Model/YamlSimd.lean (cmpeq, por, movemask, ctz32, not32); str::trim / "
        "to_ascii_lowercase as Spec/YamlKernels.normalise; the lane DAGs and chunk loops are hand-transcribed from "
        "x86.rs; every lane DAG is additionally regenerated from x86.rs on each run (Generated/C16.lean, "
        "tools/rs2lean.py kind \"lanes\") and proved equal to the hand-written lane (lanes_generated_eq); the chunk "
        "loops around them are tied to the code by the per-level correspondence only",
        "C16 whole index: no model; three configurations of the implementation compared with each other "
        "(a defect shared by all three dispatch levels is invisible to this comparison)",
        "C16: util/simd/escape.rs kernels (contains_cr, find_json_escape; scalar under scalar-yaml, not clamped by "
        "SUCCINCTLY_SIMD) are outside the kernel proof; they are exercised only through the whole-index comparison",
    ],
    "allow_bv_decide": False,
    "nontrivial": _c16_nontrivial,
    "rule": "kernel request = one kernel invocation on all dispatch levels; distinct request lines whose buffer is "
            ">= 16 bytes (a vector iteration runs); idx request = one input loaded under each configuration; distinct "
            "inputs >= 16 bytes whose index builds",
    "explanation": "Lean theorems: every vector kernel model = scalar kernel for all inputs; correspondence: AVX2, SSE2 "
                   "and scalar kernels and the public entry points of three build/dispatch configurations vs the "
                   "proved models; whole YamlIndex + renderings compared across the three configurations",
}


_X86 = "src/yaml/simd/x86.rs"
_CLS = ["return.newlines", "return.carriage_returns.then", "return.colons", "return.hyphens", "return.spaces",
        "return.quotes_double", "return.quotes_single", "return.backslashes", "return.hash"]

# Lane DAGs of every vector kernel of x86.rs, regenerated from source on every run
# (lean name, file, rust fn, {"inputs": lane inputs, "outputs": mask outputs}); `mask#0` / `mask#1` =
# the 32-byte main loop and the 16-byte tail step of an AVX2 kernel.
EXTRACT = {
    "lanes": [
        ("yaml_classify_avx2", _X86, "classify_yaml_chars_avx2", {"inputs": ["chunk"], "outputs": _CLS}),
        ("yaml_classify_sse2", _X86, "classify_yaml_chars_sse2", {"inputs": ["chunk"], "outputs": _CLS}),
        ("yaml_newline_sse2", _X86, "find_newline_sse2", {"inputs": ["chunk"], "outputs": ["mask"]}),
        ("yaml_newline_avx2", _X86, "find_newline_avx2", {"inputs": ["chunk"], "outputs": ["mask#0", "mask#1"]}),
        ("yaml_quote_sse2", _X86, "find_quote_or_escape_sse2", {"inputs": ["chunk"], "outputs": ["mask"]}),
        ("yaml_quote_avx2", _X86, "find_quote_or_escape_avx2", {"inputs": ["chunk"], "outputs": ["mask#0", "mask#1"]}),
        ("yaml_squote_sse2", _X86, "find_single_quote_sse2", {"inputs": ["chunk"], "outputs": ["mask"]}),
        ("yaml_squote_avx2", _X86, "find_single_quote_avx2", {"inputs": ["chunk"], "outputs": ["mask#0", "mask#1"]}),
        ("yaml_spaces_sse2", _X86, "count_leading_spaces_sse2", {"inputs": ["chunk"], "outputs": ["mask"]}),
        ("yaml_spaces_avx2", _X86, "count_leading_spaces_avx2", {"inputs": ["chunk"], "outputs": ["mask#0", "mask#1"]}),
        ("yaml_block_nl_avx2", _X86, "find_block_scalar_end_avx2", {"inputs": ["chunk"], "outputs": ["nl_mask#0"]}),
        ("yaml_block_sp_avx2", _X86, "find_block_scalar_end_avx2", {"inputs": ["next_chunk"], "outputs": ["space_mask"]}),
        ("yaml_block_nl_sse2", _X86, "find_block_scalar_end_sse2", {"inputs": ["chunk"], "outputs": ["nl_mask#0"]}),
        ("yaml_block_sp_sse2", _X86, "find_block_scalar_end_sse2", {"inputs": ["next_chunk"], "outputs": ["space_mask"]}),
        ("yaml_anchor_avx2", _X86, "parse_anchor_name_avx2", {"inputs": ["chunk"], "outputs": ["definite_mask", "colon_mask"]}),
        # not lane code (u32 mask arithmetic over the classifier's masks): source text pinned, see
        # Props/C16.lean `plain_scalar_skip_source_pinned`
        ("yaml_skip_unquoted", "src/yaml/parser.rs", "skip_unquoted_simd",
         {"inputs": [], "outputs": [], "pins": ["terminators", "first_pos"]}),
        ("yaml_plain_terminators", _X86, "plain_scalar_terminators", {"inputs": [], "outputs": [], "pins": ["terminators"]}),
    ],
}
