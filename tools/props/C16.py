"""C16 — YAML index does not depend on the SIMD dispatch level."""


def _c16_nontrivial(req, out):
    # kernel request: non-trivial when the buffer is at least one SSE2 chunk long (the vector loop
    # runs); idx request: the index was built (digest starts with "ok") and the input is >= 16 bytes
    t = req.split(" ")
    if len(t) < 3:
        return False
    if t[1] in ("clamp", "disp"):
        return True
    if t[1] == "idx":
        return len(t[2]) >= 32 and out.startswith("ok")
    buf = t[3] if t[1] == "cl" else t[2]
    return len(buf) >= 32


CFG = {
    "level": "proof",
    "level_text": "Kernel level (proof): Lean 4 theorems that the lane-level models of the AVX2 (32-byte loop + one "
                  "16-byte step + scalar tail) and SSE2 (16-byte loop + scalar tail) kernels find_quote_or_escape, "
                  "find_single_quote, find_newline, count_leading_spaces, find_block_scalar_end, parse_anchor_name and "
                  "classify_yaml_chars<HAS_CR> return exactly what the scalar kernels of simd/scalar.rs / simd/mod.rs "
                  "return, for every buffer, start, end and min_indent; parse_simd_clamp recognises exactly the "
                  "documented spellings and can only lower the level. Whole index (translation validation, "
                  "implementation vs implementation): the composition step 'the parser consumes the kernels only "
                  "through these functions, hence the index is level-independent' is NOT formalised (parser "
                  "unmodelled); instead every generated input is loaded under the AVX2 build, the same build with "
                  "SUCCINCTLY_SIMD=sse2 and the scalar-yaml build, and the digests of every YamlIndex accessor, the "
                  "Debug dump of all private fields and the JSON/YAML renderings are compared across the three.",
    "level_note": "Cross-variant mechanism: op `idx` is listed in xvariant_ops, so tools/run.py compares each variant's "
                  "implementation answer (digest line) with the first variant's answer for the same request line; the "
                  "driver's answer for `idx` is not used. Any cross-level difference is a mismatching line, i.e. a "
                  "violation with a replay file. Each variant also emits `disp`, which records avx2_enabled() of that "
                  "process and is diffed against the model of the clamp, so a clamp spelling that stopped working "
                  "(variant 2 silently running AVX2) is a violation, not a vacuous pass. Kernel slots whose level is not "
                  "compiled into a build (scalar-yaml) are answered by that build's public entry point. Trusts: Lean "
                  "kernel, the lane semantics of cmpeq/or/movemask/trailing_zeros in Model/YamlSimd.lean, the "
                  "differential harness. NEON/broadword backends unreachable on this host.",
    "technique": "Lean 4 proof (generic chunked-scan lemma + 256-case lane lemmas) over hand-written lane-level kernel "
                 "models; differential correspondence per dispatch level; cross-configuration translation validation of "
                 "the whole index",
    "variants": [{"features": []},
                 {"features": [], "env": {"SUCCINCTLY_SIMD": "sse2"}},
                 {"features": ["scalar-yaml"]}],
    "xvariant_ops": ["idx"],
    "lean_modules": ["SuccinctlyVerif.Props.C16"],
    "lean_files": ["SuccinctlyVerif/Props/C16.lean", "SuccinctlyVerif/Proof/YamlChunked.lean",
                   "SuccinctlyVerif/Proof/YamlKernels.lean", "SuccinctlyVerif/Model/YamlSimd.lean",
                   "SuccinctlyVerif/Spec/YamlKernels.lean"],
    "generated": [],
    "allow_bv_decide": False,
    "nontrivial": _c16_nontrivial,
    "rule": "kernel request = one kernel invocation on all dispatch levels; distinct request lines whose buffer is "
            ">= 16 bytes (a vector iteration runs); idx request = one input loaded under each configuration; distinct "
            "inputs >= 16 bytes whose index builds",
    "explanation": "Lean theorems: every vector kernel model = scalar kernel for all inputs; correspondence: AVX2, SSE2 "
                   "and scalar kernels and the public entry points of three build/dispatch configurations vs the "
                   "proved models; whole YamlIndex + renderings compared across the three configurations",
}
