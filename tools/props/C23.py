"""C23 — library evaluator vs the CLI's generic evaluator on every program (jq model as third voice)."""
import re

_STATS = {"n": 0, "in_fragment": 0, "parse_error": 0, "agree_checked": 0}

_BASE_EXPL = ("in-process differential: `jq::eval` vs `eval_generic::eval_with_cursor` on grammar-generated programs "
              "(depth 1-4) x generated inputs (duplicate keys, edge numbers, non-ASCII); implementation-vs-implementation "
              "disagreement is reported as EVALS-DISAGREE (always a violation); for programs inside the Lean model's fragment "
              "the common answer is additionally compared with the model's run line")


class _Ans(str):
    """Answer wrapper: equal to the other side when the model has no verdict (OUT-OF-FRAGMENT) or the
    program does not parse in the implementation, unless the implementation reports EVALS-DISAGREE / PANIC."""

    def _skip(self, other):
        a, b = str(self), str(other)
        if "EVALS-DISAGREE" in a or "EVALS-DISAGREE" in b or a.startswith("PANIC") or b.startswith("PANIC"):
            return False
        return ("OUT-OF-FRAGMENT" in a or "OUT-OF-FRAGMENT" in b or a == "PARSE-ERROR" or b == "PARSE-ERROR")

    def __eq__(self, other):
        return self._skip(other) or str(self) == str(other)

    def __ne__(self, other):
        return not self.__eq__(other)

    __hash__ = str.__hash__


def _canon(req, out):
    # called for the implementation side first, then for the model side
    if out == "PARSE-ERROR":
        _STATS["parse_error"] += 1
    elif "OUT-OF-FRAGMENT" in out:
        _STATS["n"] += 1
    elif not out.startswith("EVALS-DISAGREE") and _STATS.get("_side", 0) == 1:
        _STATS["n"] += 1
        _STATS["in_fragment"] += 1
    _STATS["_side"] = 1 - _STATS.get("_side", 0)
    if _STATS["n"] and _STATS["_side"] == 0:
        CFG["explanation"] = (_BASE_EXPL + f"; model verdicts on this run: {_STATS['in_fragment']}/{_STATS['n']} "
                              f"parsed programs in fragment ({100.0 * _STATS['in_fragment'] / max(1, _STATS['n']):.1f} %), "
                              f"{_STATS['parse_error']} generated programs rejected by the implementation's parser")
    return _Ans(out)


def _nontrivial(req, out):
    # non-trivial: the run produced at least one value or an error (not a parse error / empty run)
    return out not in ("PARSE-ERROR", "END")


CFG = {
    "level": "translation_validation",
    "level_text": "both Rust evaluators are tied to one executable Lean model of the jq core (Model/Jq.lean, "
                  "eval_fuel_mono proved: more fuel never changes a finished run) and to each other by differential "
                  "execution on grammar-generated programs; no theorem about the Rust code itself",
    "level_note": "Trusts the harness/driver correspondence machinery and the hand-written model (which follows jq 1.7.1's "
                  "manual and builtin.jq); programs outside the modelled fragment are compared implementation-vs-implementation only.",
    "technique": "differential execution of two implementations + Lean model as third voice; Lean theorem eval_fuel_mono",
    "variants": [{"features": []}],
    "lean_modules": ["SuccinctlyVerif.Props.C23"],
    "lean_files": ["SuccinctlyVerif/Props/C23.lean", "SuccinctlyVerif/Proof/JqMono.lean", "SuccinctlyVerif/Model/Jq.lean",
                   "SuccinctlyVerif/Model/JqValue.lean", "SuccinctlyVerif/Model/JqParse.lean",
                   "SuccinctlyVerif/Model/JqPrelude.lean", "SuccinctlyVerif/Model/JsonPrint.lean"],
    "generated": [],
    "canon": _canon,
    "nontrivial": _nontrivial,
    "rule": "request = (program text, input JSON); distinct request lines whose run is not a parse error and not an empty run",
    "explanation": _BASE_EXPL,
}
