"""C23 — library evaluator vs the CLI's generic evaluator on every program (jq model as third voice)."""

_BASE_EXPL = ("in-process differential: `jq::eval` vs `eval_generic::eval_with_cursor` on grammar-generated programs "
              "(depth 1-4) x generated inputs (duplicate keys, edge numbers, non-ASCII); implementation-vs-implementation "
              "disagreement is reported as EVALS-DISAGREE (always a violation); for programs inside the Lean model's fragment "
              "the common answer is additionally compared with the model's run line (coverage.in_fragment_rate); "
              "plus an order class: order-sensitive programs (sort, unique, min, max, group_by, < >) on arrays of objects over "
              "one key set with permuted insertion orders, where only the model comparison can see a wrong shared comparator; "
              "plus a text class: computed slice bounds (arithmetic, paths, variables, negative, null, fractional) on navigated "
              "strings and arrays and the byte-vs-character sensitive builtins (length, utf8bytelength, explode/implode, "
              "index/rindex/indices, ltrimstr/rtrimstr, split, @formats) on documents whose strings hold 2-, 3- and 4-byte "
              "characters, combining marks and ZWJ sequences")


def _verdict(req, impl, model):
    """EVALS-DISAGREE / PANIC always count; no model verdict (OUT-OF-FRAGMENT) or a program the
    implementation's parser rejects is a skip; otherwise the run lines must be identical."""
    if impl.startswith("EVALS-DISAGREE") or impl.startswith("PANIC"):
        return "disagree"
    if "OUT-OF-FRAGMENT" in model or impl == "PARSE-ERROR":
        return "skip"
    return "agree" if impl == model else "disagree"


def _counters(triples):
    parsed = [t for t in triples if t[1] != "PARSE-ERROR"]
    infr = [t for t in parsed if "OUT-OF-FRAGMENT" not in t[2]]
    return {
        "programs_generated": len(triples),
        "programs_rejected_by_impl_parser": len(triples) - len(parsed),
        "in_fragment": len(infr),
        "in_fragment_rate": round(len(infr) / max(1, len(parsed)), 4),
        "evals_disagree": sum(1 for t in triples if t[1].startswith("EVALS-DISAGREE")),
        "impl_panics": sum(1 for t in triples if t[1].startswith("PANIC")),
    }


def _nontrivial(req, out):
    # non-trivial: the run produced at least one value or an error (not a parse error / empty run)
    return out not in ("PARSE-ERROR", "END")


CFG = {
    "level": "translation_validation",
    "level_text": "both Rust evaluators are tied to one executable Lean model of the jq core (Model/Jq.lean, "
                  "eval_fuel_mono proved: more fuel never changes a finished run) and to each other by differential "
                  "execution on grammar-generated programs; no theorem about the Rust code itself",
    "level_note": "Trusts the harness/driver correspondence machinery and the hand-written model (which follows jq 1.7.1's "
                  "manual and builtin.jq); programs outside the modelled fragment are compared implementation-vs-implementation only. "
                  "No model verdict (counted in coverage.skipped) also for: a run that computes an integral double with "
                  "2^53 <= |x| inside the i64 range (succinctly continues with an i64 or an f64 depending on internal "
                  "re-serialisation points the model does not track, C24-F23); an update-assignment whose path expression "
                  "fails after some paths were produced unless both evaluation orders raise the same error; `??` in a program "
                  "with a minus sign; `-<number>` inside a string interpolation.",
    "technique": "differential execution of two implementations + Lean model as third voice; Lean theorem eval_fuel_mono",
    "variants": [{"features": []}],
    "lean_modules": ["SuccinctlyVerif.Props.C23"],
    "lean_files": ["SuccinctlyVerif/Props/C23.lean", "SuccinctlyVerif/Proof/JqMono.lean", "SuccinctlyVerif/Model/Jq.lean",
                   "SuccinctlyVerif/Model/JqValue.lean", "SuccinctlyVerif/Model/JqParse.lean",
                   "SuccinctlyVerif/Model/JqPrelude.lean", "SuccinctlyVerif/Model/JsonPrint.lean"],
    "generated": [],
    "verdict": _verdict,
    "counters": _counters,
    "nontrivial": _nontrivial,
    "rule": "request = (program text, input JSON); distinct request lines whose run is not a parse error and not an empty run",
    "explanation": _BASE_EXPL,
}
