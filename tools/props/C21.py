"""C21 — DSV rows and fields follow quote-aware splitting."""


def _c21_nontrivial(req, out):
    t = req.split(" ")
    return len(t) >= 6 and t[5] != "-"


CFG = {
    "level": "proof",
    "level_text": "TBD",
    "level_note": "TBD",
    "technique": "Lean 4 model of DsvIndexLightweight/DsvCursor/DsvRows/DsvFields/DsvRow::get + splitting spec; "
                 "differential correspondence vs compiled model with per-input spec cross-check",
    "variants": [{"features": []}],
    "lean_modules": [],
    "lean_files": ["SuccinctlyVerif/Spec/Dsv.lean", "SuccinctlyVerif/Model/DsvNav.lean"],
    "generated": ["common:"],
    "nontrivial": _c21_nontrivial,
    "rule": "distinct request lines with non-empty text / word list",
    "explanation": "TBD",
}
