"""C21 — DSV rows and fields follow quote-aware splitting."""


def _c21_nontrivial(req, out):
    t = req.split(" ")
    return len(t) >= 6 and t[5] != "-"


CFG = {
    "level": "proof",
    "level_text": "PARTIAL. Proved: append_separator_invariant_partial (over the quote-aware splitting spec, all texts/configurations) and "
                  "fields_eq_full_refuted (finding F7 on the model of the code: text `a,` loses its final empty field). NOT proved: "
                  "rows_eq / fields_eq / random access = iteration as model = spec for all texts (statements kept as "
                  "fields_eq_partial_statement / random_access_partial_statement with the F7 side condition); these are checked, not "
                  "proved: the driver compares the code model (rank/select with partition_point, cursor, DsvRows, DsvFields, "
                  "DsvRow::get, Dsv::row) with the spec on every request, and the implementation with the code model.",
    "level_note": "Known finding F7 (known_findings.json): disagreement class = text ends with an unquoted delimiter and the spec has "
                  "exactly one more final empty field than the code. u32 rank counters modelled as Nat (< 4 GiB); slices total.",
    "technique": "Lean 4 model of DsvIndexLightweight/DsvCursor/DsvRows/DsvFields/DsvRow::get + splitting spec; "
                 "differential correspondence vs compiled model with per-input spec cross-check",
    "variants": [{"features": []}],
    "lean_modules": ["SuccinctlyVerif.Props.C21"],
    "required_theorems": ["SV.Props.C21.append_separator_invariant_partial"],
    "lean_files": ["SuccinctlyVerif/Props/C21.lean", "SuccinctlyVerif/Proof/DsvNav.lean", "SuccinctlyVerif/Spec/Dsv.lean", "SuccinctlyVerif/Model/DsvNav.lean"],
    "generated": ["common:"],
    "nontrivial": _c21_nontrivial,
    "rule": "distinct request lines with non-empty text / word list",
    "explanation": "correspondence: Dsv::parse_with_config + rows()/fields() iteration, Dsv::row(r)/DsvRow::get(c) for all r,c incl. out of "
                   "range, DsvCursor operation lists (next_field/next_row/goto_row/current_field/at_end), rank1/select1 of indexes "
                   "built from raw words (zero words, bits beyond text_len), vs the compiled code model; exhaustive texts up to "
                   "length 5 over {d,q,n,a}, generated delimiter/quote/newline-rich texts with many (d,q,n) triples, t and t++n; "
                   "every rows/get answer cross-checked against the splitting spec (MODEL-SPEC on deviation = F7 class only)",
}
