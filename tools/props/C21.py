"""C21 — DSV rows and fields follow quote-aware splitting."""


def _c21_nontrivial(req, out):
    t = req.split(" ")
    return len(t) >= 6 and t[5] != "-"


CFG = {
    "level": "proof",
    "level_text": "Lean 4 theorems, full statements over the model of the repaired code (fix 86e05db): fields_eq (rows()/fields() "
                  "iteration = text split at unquoted record separators, final separator starts no row, then at unquoted delimiters, "
                  "empty fields kept), rows_eq, row_random_access_eq_iteration (Dsv::row(r) = r-th row of the iteration, None exactly "
                  "when out of range), get_eq_iteration / cell_eq (DsvRow::get(c) = c-th field of the iteration, all indices), "
                  "append_separator_invariant; for all byte strings and all (d,q,n) — distinctness not needed. Route: rank1/select1 "
                  "(cumulative counts + partition_point binary search + CTZ select) = rankB/selectB on the packed spec bits; "
                  "select(rank(p)) = first marker at or after p; cursor iteration = reference table = spec.",
    "level_note": "Finding F7 (final empty field lost for a text ending with an unquoted delimiter) was repaired in the repository "
                  "(commit 86e05db); the model follows the repaired source and corpus/C21/finding-F7.case is kept as regression. "
                  "bv_decide axioms enter only through the shared C02 kernel lemmas (popc, selectCtz). u32 rank counters are "
                  "modelled as Nat (< 4 GiB); slices are total.",
    "technique": "Lean 4 proof: model of DsvIndexLightweight/DsvCursor/DsvRows/DsvFields/DsvRow::get = splitting spec; "
                 "differential correspondence vs compiled model",
    "variants": [{"features": []}],
    "lean_modules": ["SuccinctlyVerif.Props.C21"],
    "required_theorems": ["SV.Props.C21.fields_eq", "SV.Props.C21.rows_eq", "SV.Props.C21.row_random_access_eq_iteration",
                          "SV.Props.C21.get_eq_iteration", "SV.Props.C21.cell_eq", "SV.Props.C21.append_separator_invariant"],
    "allow_bv_decide": True,
    "lean_files": ["SuccinctlyVerif/Props/C21.lean", "SuccinctlyVerif/Proof/DsvNav.lean", "SuccinctlyVerif/Proof/DsvRank.lean",
                   "SuccinctlyVerif/Proof/DsvNavModel.lean", "SuccinctlyVerif/Proof/DsvNavAccess.lean", "SuccinctlyVerif/Spec/Dsv.lean", "SuccinctlyVerif/Model/DsvNav.lean"],
    "generated": ["common:"],
    "nontrivial": _c21_nontrivial,
    "rule": "distinct request lines with non-empty text / word list",
    "explanation": "correspondence: Dsv::parse_with_config + rows()/fields() iteration, Dsv::row(r)/DsvRow::get(c) for all r,c incl. out of "
                   "range, DsvCursor operation lists (next_field/next_row/goto_row/current_field/at_end), rank1/select1 of indexes "
                   "built from raw words (zero words, bits beyond text_len), vs the compiled code model; exhaustive texts up to "
                   "length 5 over {d,q,n,a}, generated delimiter/quote/newline-rich texts with many (d,q,n) triples, t and t++n; "
                   "model = spec is a theorem (fields_eq, cell_eq)",
}
