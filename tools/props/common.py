"""Extraction shared by several properties (Generated/Common.lean)."""
EXTRACT = {
    "consts": [
        # (lean name, file, rust const name)
        ("RANK_WORDS_PER_BLOCK", "src/bits/rank.rs", "WORDS_PER_BLOCK"),
        ("RANK_BLOCKS_PER_SUPERBLOCK", "src/bits/rank.rs", "BLOCKS_PER_SUPERBLOCK"),
        ("DEFAULT_SAMPLE_RATE", "src/bits/select.rs", "DEFAULT_SAMPLE_RATE"),
        ("SCAN_BLOCK", "src/bits/scan.rs", "BLOCK"),
        ("SCAN_PROLOGUE", "src/bits/scan.rs", "PROLOGUE"),
    ],
    "kernels": [
        # (lean name, file, rust fn, optional `let <var> = { … }` block to translate instead of the whole fn)
        ("popcount_word_portable", "src/bits/popcount.rs", "popcount_word_portable", None),
        ("broadword_byte_counts", "src/util/broadword.rs", "select_in_word_broadword", "byte_counts"),
        ("prefix_xor", "src/util/simd/quote_mask.rs", "prefix_xor", None),
        ("next_carry", "src/util/simd/quote_mask.rs", "next_carry", None),
        ("toggle64_from_prefix_xor", "src/util/simd/quote_mask.rs", "toggle64_from_prefix_xor", None),
        ("toggle64_from_deposit", "src/util/simd/quote_mask.rs", "toggle64_from_deposit", None),
    ],
    # keys of the JSON object printed by `svharness tables`
    "tables": ["SELECT_IN_BYTE_TABLE"],
}
