"""C20 — DSV index does not depend on the indexing engine."""


def _c20_nontrivial(req, out):
    t = req.split(" ")
    if len(t) < 3:
        return False
    if t[1] == "idx":
        return len(t) == 7 and t[6] != "-"
    return t[-1] not in ("0", "ffffffffffffffff")


EXTRACT = {
    "consts": [("ODDS_MASK", "src/util/simd/quote_mask.rs", "ODDS_MASK")],
}

CFG = {
    "level": "proof",
    "level_text": "TBD",
    "level_note": "TBD",
    "technique": "Lean 4 proof (staged bv_decide kernel lemmas + induction over chunks) over translated quote-mask kernels; "
                 "differential correspondence of every engine vs compiled model",
    "variants": [{"features": []}],
    "lean_modules": [],
    "lean_files": ["SuccinctlyVerif/Spec/Dsv.lean", "SuccinctlyVerif/Model/Dsv.lean"],
    "generated": ["common:", "C20:"],
    "allow_bv_decide": True,
    "nontrivial": _c20_nontrivial,
    "rule": "distinct request lines: idx requests with non-empty text, kernel requests whose quote mask is neither 0 nor all-ones",
    "explanation": "TBD",
}
