"""C20 — DSV index does not depend on the indexing engine."""


def _c20_nontrivial(req, out):
    t = req.split(" ")
    if len(t) < 3:
        return False
    if t[1] == "idx":
        return len(t) == 7 and t[6] != "-"
    return t[-1] not in ("0", "ffffffffffffffff")


def _dsv_outs(n):
    return [f"{m}_mask{i}" for m in ("delim", "quote", "nl") for i in range(n)]


EXTRACT = {
    "consts": [("ODDS_MASK", "src/util/simd/quote_mask.rs", "ODDS_MASK")],
    # equality-mask lane DAGs of the three x86 engines, regenerated from source on every run
    # (tools/rs2lean.py kind "lanes"); Props/C20.lean `lanes_generated_eq` ties them to `cmpeq`.
    "lanes": [
        ("dsv_avx2", "src/dsv/simd/avx2.rs", "process_chunk_64",
         {"inputs": ["chunk0", "chunk1"], "outputs": _dsv_outs(2)}),
        ("dsv_sse2", "src/dsv/simd/sse2.rs", "process_chunk_64",
         {"inputs": ["chunk0", "chunk1", "chunk2", "chunk3"], "outputs": _dsv_outs(4)}),
        ("dsv_bmi2", "src/dsv/simd/bmi2.rs", "process_chunk_64_bmi2",
         {"inputs": ["chunk0", "chunk1"], "outputs": _dsv_outs(2)}),
    ],
}

CFG = {
    "level": "proof",
    "level_text": "Lean 4 theorems, full statement: for every byte string and every (delimiter, quote, newline) — distinctness not "
                  "even needed — the scalar byte loop, the SSE2/AVX2 prefix-XOR chunk loops, the BMI2 PDEP chunk loop and the "
                  "dispatcher (any CPU flags) all produce the packed bit-serial spec, hence identical marker/newline words "
                  "(engines_eq_spec, engines_eq_scalar, rank_select_equal); kernel lemmas prefix_xor_spec/parity, "
                  "toggle_prefix_eq_serial, pdep_odds, toggle_deposit_eq_serial (incl. the bit-63 carry) over the kernels "
                  "translated from source each run; tie: every engine driven directly through hooks and diffed word for word.",
    "level_note": "Trusts Lean kernel + bv_decide certificate checker (4 word identities in Proof/DsvKernels.lean, axioms listed per "
                  "theorem), the rs2lean translator, the PDEP definition in Model/Prim.lean, the lane semantics of "
                  "cmpeq/movemask (Model/Dsv.lean eqMaskAvx2/eqMaskSse2) and the differential harness. The u32::MAX text "
                  "length assertion of DsvIndexLightweight::new and the NEON/SVE2 engines are outside the model.",
    "technique": "Lean 4 proof (staged bv_decide kernel lemmas + induction over chunks) over translated quote-mask kernels; "
                 "differential correspondence of every engine vs compiled model",
    "variants": [{"features": []}],
    "lean_modules": ["SuccinctlyVerif.Props.C20"],
    "lean_files": ["SuccinctlyVerif/Props/C20.lean", "SuccinctlyVerif/Proof/Dsv.lean", "SuccinctlyVerif/Proof/DsvKernels.lean",
                   "SuccinctlyVerif/Spec/Dsv.lean", "SuccinctlyVerif/Model/Dsv.lean", "SuccinctlyVerif/Model/Prim.lean"],
    "required_theorems": ["SV.Props.C20.engines_eq_scalar", "SV.Props.C20.engines_eq_spec",
                          "SV.Props.C20.toggle_prefix_eq_serial", "SV.Props.C20.toggle_deposit_eq_serial",
                          "SV.Props.C20.prefix_xor_spec", "SV.Props.C20.lanes_generated_eq"],
    "generated": ["common:", "C20:"],
    "allow_bv_decide": True,
    "nontrivial": _c20_nontrivial,
    "rule": "distinct request lines: idx requests with non-empty text, kernel requests whose quote mask is neither 0 nor all-ones",
    "explanation": "Lean theorems: every engine model = packed bit-serial spec for all texts and configurations; "
                   "correspondence: scalar, simd::sse2, simd::avx2, simd::bmi2 and the dispatcher of the Rust crate, plus the "
                   "quote-mask kernels (prefix_xor, toggle64_from_prefix_xor, toggle64_bmi2, toggle64_from_deposit, next_carry), "
                   "vs the proved models on generated texts (quoted regions spanning 0-5 chunks, quote at bit 63, odd/even quote "
                   "runs, lengths around 0/1/63/64/65/127/128/4096(/64k), many (d,q,n) triples incl. 0x00 and 0xFF)",
}
