"""C14 — YAML loading reproduces the value of every well-formed document."""
import re


def _canon(req, out):
    return out



def _nontrivial(req, out):
    t = req.split(" ")
    return len(t) > 3 and t[1] in ("load", "suite") and len(t[-1]) > 8


CFG = {
    "level": "translation_validation",
    "level_text": "Translation validation with a proved oracle: Lean reference loader `loadRef` + renderer for the generated "
                  "presentation subset; theorem layers render_load_* (see Props/C14.lean: proved layers are full theorems, "
                  "unfinished layers are `render_load_partial_<layer>`); the 7 000-line Rust oracle parser is NOT modelled, "
                  "only its observable result (YamlIndex::build + YamlValue traversal + to_json) is tied to loadRef and to "
                  "the generated tree on every generated stream; loadRef is validated as YAML on the in-subset cases of the "
                  "repository's YAML Test Suite recording.",
    "level_note": "Trusts Lean kernel, the harness's Rust twin of `render` (checked byte-for-byte against the Lean `render` on "
                  "every request: RENDER-MISMATCH otherwise), the wire format, and the differential harness.",
    "technique": "Lean 4 reference loader + round-trip theorems over a rendered subset; differential correspondence and "
                 "in-process property oracle (loaded tree = generated tree; to_json reads back to the tree)",
    "variants": [{"features": []}],
    "lean_modules": ["SuccinctlyVerif.Props.C14"],
    "lean_files": ["SuccinctlyVerif/Props/C14.lean", "SuccinctlyVerif/Proof/YamlRoundTrip.lean",
                   "SuccinctlyVerif/Spec/YamlRef.lean", "SuccinctlyVerif/Spec/YamlTree.lean",
                   "SuccinctlyVerif/Spec/YamlLoad.lean"],
    "generated": [],
    "canon": _canon,
    "nontrivial": _nontrivial,
    "rule": "request = one generated stream (tree + presentation + rendered bytes) or one YAML Test Suite case; "
            "distinct request lines with more than 4 rendered bytes",
    "explanation": "every generated stream: Lean `render` = harness render (bytes), `admissible`, loadRef(render) = trees "
                   "(re-checked at run time besides the theorems), Rust loader result = loadRef result = generated trees, "
                   "to_json reads back to the tree; YAML Test Suite: loadRef = recorded JSON on every in-subset case",
}
