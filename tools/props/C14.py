"""C14 — YAML loading reproduces the value of every well-formed document."""
import os

_ROOT = os.path.dirname(os.path.dirname(os.path.dirname(os.path.abspath(__file__))))
_CLI = os.path.join(_ROOT, ".build", "target-cli", "release", "succinctly")


def _canon(req, out):
    return out



def _nontrivial(req, out):
    t = req.split(" ")
    return len(t) > 3 and t[1] in ("load", "suite") and len(t[-1]) > 8


CFG = {
    "level": "translation_validation",
    "level_text": "Translation validation with a proved oracle: Lean reference loader `loadRef` + renderer for the generated "
                  "presentation subset. PROVED for all inputs (render_load / render_load_full): for EVERY admissible stream "
                  "loadRef(render s) = s.trees - the UTF-8 byte layer, layer 1 (flow collections, double-quoted scalars/keys), "
                  "layer 2 (block mappings/sequences with nesting, indentation steps, compact forms, plain/single/double "
                  "scalars and keys, every null/bool/int spelling), layer 3 (literal and folded block scalars, every chomping "
                  "indicator, content indentation 1-9 with or without indicator, folds, at any depth and as a document root), "
                  "layer 4 (comment lines, blank lines and trailing comments wherever `admissible` allows them), layer 5 "
                  "(LF/CRLF/CR), layer 6 (anchors and aliases in flow and block context, scoping as in `PNode.scope`) and "
                  "layer 7 (`---`/`...`, any number of documents, root node on the marker line, filler lines between documents). "
                  "No layer is left to run-time evaluation; the driver still re-evaluates loadRef(render s) = trees and "
                  "`admissible` on every generated stream. "
                  "The 7 000-line Rust oracle parser is NOT modelled, only its observable result "
                  "(YamlIndex::build + YamlValue traversal + to_json, and `yq -o json`) is tied to loadRef and to the "
                  "generated tree; loadRef is validated as YAML on the in-subset cases of the repository's YAML Test Suite.",
    "level_note": "Trusts Lean kernel, the harness's Rust twin of `render` (checked byte-for-byte against the Lean `render` on "
                  "every request: RENDER-MISMATCH otherwise), the wire format, and the differential harness.",
    "technique": "Lean 4 reference loader + round-trip theorems over a rendered subset; differential correspondence and "
                 "in-process property oracle (loaded tree = generated tree; to_json reads back to the tree)",
    "variants": [{"features": [], "env": {"SV_CLI": _CLI}}],
    "needs_cli": True,
    "lean_modules": ["SuccinctlyVerif.Props.C14"],
    "required_theorems": ["SV.Props.C14.render_load_flow", "SV.Props.C14.render_load_breaks", "SV.Props.C14.render_load_flow_breaks",
                          "SV.Props.C14.render_load_block", "SV.Props.C14.render_load_block_breaks",
                          "SV.Props.C14.render_load", "SV.Props.C14.render_load_full", "SV.Props.C14.render_load_docs"],
    "lean_files": ["SuccinctlyVerif/Props/C14.lean", "SuccinctlyVerif/Proof/YamlRoundTrip.lean", "SuccinctlyVerif/Proof/YamlRefBlock.lean", "SuccinctlyVerif/Proof/YamlRefBlockScalar.lean", "SuccinctlyVerif/Proof/YamlRefDocs.lean", "SuccinctlyVerif/Proof/YamlFamilies.lean",
                   "SuccinctlyVerif/Spec/YamlRef.lean", "SuccinctlyVerif/Spec/YamlTree.lean",
                   "SuccinctlyVerif/Spec/YamlLoad.lean"],
    "generated": [],
    "canon": _canon,
    "nontrivial": _nontrivial,
    "rule": "request = one generated stream (tree + presentation + rendered bytes) or one YAML Test Suite case; "
            "distinct request lines with more than 4 rendered bytes",
    "explanation": "every generated stream: Lean `render` = harness render (bytes), `admissible`, loadRef(render) = trees "
                   "(re-checked at run time besides the theorems), Rust loader result = loadRef result = generated trees, "
                   "to_json reads back to the tree; YAML Test Suite: loadRef = recorded JSON on every in-subset case",
}
