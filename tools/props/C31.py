"""C31 — index serialization round-trips and tolerates any byte alignment."""
import re


def _c31_nontrivial(req, out):
    t = req.split(" ")
    if len(t) < 3:
        return False
    if t[1] in ("conv", "vec", "json", "bp", "bv"):
        return len(t) > 3 and t[3] not in ("-", "")
    if t[1] == "semi":
        return len(t) > 5 and (t[4] != "-" or t[5] != "-")
    return t[2] not in ("-", "")


def _c31_canon(req, out):
    # rebuild ops: the harness reports `EQ n=<queries> d=<digest>`; the model side states `EQ`
    op = req.split(" ", 2)[1] if " " in req else ""
    if op in ("json", "bp", "bv") and re.match(r"^EQ( |$)", out):
        return "EQ"
    return out


CFG = {
    "level": "proof",
    "level_text": "Lean 4 theorems over a model of src/binary.rs in which a byte slice carries its address misalignment "
                  "a in 0..7 and bytemuck::try_cast_slice is modelled branch by branch: words->bytes->words is the identity "
                  "for every word vector through all three readers (and bytes->words->bytes for every multiple-of-8 byte "
                  "string); the little-endian layout equals the arithmetic definition; at a = 0 the fallible reader answers "
                  "None exactly for lengths not divisible by 8 and none of the readers panics on a multiple-of-8 length. "
                  "bytes_to_words_vec (copying, fix b9692bb) equals the address-free spec at EVERY offset (vec_any_alignment, "
                  "full). Partial: for the two zero-copy readers bytes_to_words / try_bytes_to_words the 'any alignment' clause "
                  "is REFUTED for a != 0 (they panic exactly when a != 0, the slice is non-empty and its length is a multiple "
                  "of 8 - proved, witness replayed: open finding F8), so it holds only as any_alignment_partial (a = 0). "
                  "Rebuilt-index equality is proved only "
                  "as 'the constructors receive identical (words, len)'; that the real indexes are functions of (words, len) "
                  "is C01/C04/C07 and is checked here implementation-vs-implementation by the harness.",
    "level_note": "bytemuck::cast_slice's alignment rule is assumed external behaviour (modelled from bytemuck 1.25 "
                  "internal.rs; exercised by the harness at every offset 0..7 of an 8-aligned buffer). Little-endian target "
                  "assumed (x86-64 host). The json/bp/bv ops compare original vs rebuilt structures in-process on a query "
                  "battery; the model side only states the expected verdict.",
    "technique": "Lean 4 proof (bv_decide for the byte/word packing, induction over vectors) + differential correspondence; "
                 "implementation-vs-implementation battery for rebuilt indexes",
    "variants": [{"features": []}],
    "lean_modules": ["SuccinctlyVerif.Props.C31"],
    "lean_files": ["SuccinctlyVerif/Props/C31.lean", "SuccinctlyVerif/Proof/Binary.lean",
                   "SuccinctlyVerif/Model/Binary.lean", "SuccinctlyVerif/Spec/Binary.lean"],
    "generated": [],
    "allow_bv_decide": True,
    "required_theorems": ["SV.Props.C31.words_bytes_words", "SV.Props.C31.bad_length_only_partial",
                          "SV.Props.C31.any_alignment_partial", "SV.Props.C31.any_alignment_full_statement_refuted",
                          "SV.Props.C31.vec_any_alignment"],
    "nontrivial": _c31_nontrivial,
    "canon": _c31_canon,
    "rule": "request = one conversion (word vector, or byte string + alignment offset) or one index rebuilt from its "
            "serialized parts; distinct request lines with a non-empty payload",
    "explanation": "Lean theorems: round trips and exact panic/None characterisation of the three readers per alignment; "
                   "correspondence: words_to_bytes / bytes_to_words / bytes_to_words_vec / try_bytes_to_words on byte slices at "
                   "every offset 0..7 of an 8-aligned buffer vs model and address-free spec; JsonIndex / BalancedParens / "
                   "BitVec / SemiIndex rebuilt (owned and borrowed) from serialized-and-reloaded parts vs originals on a query battery",
}
