"""C28 — jq-locate expressions evaluate to the located JSON node."""
import os

_ROOT = os.path.dirname(os.path.dirname(os.path.dirname(os.path.abspath(__file__))))

def _c28_nontrivial(req, out):
    t = req.split(" ")
    return len(t) > 2 and len(t[2]) >= 4


CFG = {
    "level": "proof",
    "level_text": "Lean 4 theorems for the path/lexing layer: lex_roundtrip (escape_jq_string is read back by the jq string lexer for every key, "
                  "no side condition), dot_notation_sound (full, over the repaired can_use_dot_notation; findings C28-F1/F2 fixed), "
                  "path_expr_sound (the rendered expression parses to the index chain and evaluates, in the jq model, to the sub-value the "
                  "path denotes, for every tree/path; dot components must be jq identifiers, indices fit i64), find_node_at_offset_eq / located_start_eq (node selection and range start on the real index of "
                  "every valid document, composing C05/C06/C07), range_eq_partial; the parent walk of path_to_bp over BP, the range end, "
                  "at_position (line index) and the crate's own jq are tied by correspondence.",
    "level_note": "Trusts the jq model (Model/JqParse, Model/Jq: jq 1.7.1 grammar) as the meaning of `a jq expression`, the reference semi-index builder (C05) and BP/rank/select specs (C04, C07) under the BP-level "
                  "model, which the driver cross-checks against the node-table model on every request.",
    "technique": "Lean 4 model of path reconstruction / expression rendering + jq model evaluation; differential correspondence",
    "variants": [{"features": [], "env": {"SV_CLI": os.path.join(_ROOT, ".build", "target-cli", "release", "succinctly")}}],
    "needs_cli": True,
    "lean_modules": ["SuccinctlyVerif.Props.C28"],
    "lean_files": ["SuccinctlyVerif/Model/JsonLocate.lean", "SuccinctlyVerif/Model/JsonLocateBp.lean",
                   "SuccinctlyVerif/Proof/JsonLocate.lean", "SuccinctlyVerif/Proof/JsonLocateLex.lean",
                   "SuccinctlyVerif/Proof/JsonLocatePath.lean", "SuccinctlyVerif/Proof/JsonLocateIndex.lean",
                   "SuccinctlyVerif/Props/C28.lean"],
    "required_theorems": ["SV.Props.C28.lex_roundtrip", "SV.Props.C28.dot_notation_sound",
                          "SV.Props.C28.path_expr_sound", "SV.Props.C28.ofKey_dotOK"],
    "generated": [],
    "nontrivial": _c28_nontrivial,
    "rule": "request = one document (all its byte offsets) or one key; distinct request lines with at least 2 bytes of payload",
    "explanation": "per generated duplicate-free document: every byte offset (expression, byte range, type, at_offset, at_position vs an "
                   "independent in-harness reader) and per token the printed expression evaluated by the crate's own jq vs the node's value; "
                   "driver: two model layers (node table; function-by-function over IB/BP) + evaluation of the expression in the jq model; "
                   "CLI `jq-locate` (json + plain, offset + line/column) and `succinctly jq` on a sample",
}
