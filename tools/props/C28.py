"""C28 — jq-locate expressions evaluate to the located JSON node."""
import os

_ROOT = os.path.dirname(os.path.dirname(os.path.dirname(os.path.abspath(__file__))))

EXTRACT = {
    # Rust core's `char::is_alphabetic` / `char::is_numeric` as flattened scalar ranges, dumped by
    # the hook binary built from the current tree (`svharness tables`).
    "tables": ["UNICODE_ALPHABETIC_RANGES", "UNICODE_NUMERIC_RANGES"],
}


def _c28_nontrivial(req, out):
    t = req.split(" ")
    return len(t) > 2 and len(t[2]) >= 4


CFG = {
    "level": "proof",
    "level_text": "TODO",
    "level_note": "TODO",
    "technique": "Lean 4 model of path reconstruction / expression rendering + jq model evaluation; differential correspondence",
    "variants": [{"features": [], "env": {"SV_CLI": os.path.join(_ROOT, ".build", "target-cli", "release", "succinctly")}}],
    "needs_cli": True,
    "lean_modules": [],
    "lean_files": ["SuccinctlyVerif/Model/JsonLocate.lean"],
    "generated": ["C28:"],
    "nontrivial": _c28_nontrivial,
    "rule": "request = one document (all its byte offsets) or one key; distinct request lines with at least 2 bytes of payload",
    "explanation": "TODO",
}
