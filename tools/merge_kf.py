#!/usr/bin/env python3
"""Resolve a merge conflict in known_findings.json by taking the union of both sides (by id)."""
import json, subprocess
def side(ref):
    try:
        return json.loads(subprocess.check_output(["git", "show", f"{ref}:known_findings.json"], text=True))
    except Exception:
        return {}
ours, theirs = side("HEAD"), side("MERGE_HEAD")
# same id on both sides: the merged-in branch is the newer edit of that entry
newer = {f["id"]: f for f in theirs.get("findings", [])}
out, seen = [], set()
for f in ours.get("findings", []) + theirs.get("findings", []):
    if f["id"] not in seen:
        seen.add(f["id"]); out.append(newer.get(f["id"], f))
fixed = list(dict.fromkeys(ours.get("fixed", []) + theirs.get("fixed", [])))
closed = list(dict.fromkeys(ours.get("closed_ids", []) + theirs.get("closed_ids", [])))
out = [f for f in out if f["id"] not in closed]
d = {"_format": ours.get("_format") or theirs.get("_format", ""), "findings": out, "fixed": fixed, "closed_ids": closed}
json.dump(d, open("known_findings.json", "w"), indent=1)
print(len(out), "findings,", len(fixed), "fixed")
