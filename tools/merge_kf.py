#!/usr/bin/env python3
"""Resolve a merge conflict in known_findings.json by a three-way merge per finding id.

For every id: unchanged on one side w.r.t. the merge base -> take the other side (including a
deletion); changed on both sides -> take the merged-in side. `fixed` and `closed_ids` are unions;
an id in `closed_ids` is never open."""
import json, subprocess


def load(ref):
    try:
        return json.loads(subprocess.check_output(["git", "show", f"{ref}:known_findings.json"], text=True,
                                                  stderr=subprocess.DEVNULL))
    except Exception:  # noqa
        return {}


base_ref = subprocess.check_output(["git", "merge-base", "HEAD", "MERGE_HEAD"], text=True).strip()
base, ours, theirs = load(base_ref), load("HEAD"), load("MERGE_HEAD")
B = {f["id"]: f for f in base.get("findings", [])}
O = {f["id"]: f for f in ours.get("findings", [])}
T = {f["id"]: f for f in theirs.get("findings", [])}
order = list(dict.fromkeys([f["id"] for f in ours.get("findings", [])] + [f["id"] for f in theirs.get("findings", [])]))
out = []
for i in order:
    b, o, t = B.get(i), O.get(i), T.get(i)
    if o == t:
        pick = o
    elif t == b:
        pick = o          # only we touched it (or deleted it)
    elif o == b:
        pick = t          # only they touched it (or deleted it)
    else:
        pick = t if t is not None else o
    if pick is not None:
        out.append(pick)
fixed = list(dict.fromkeys(ours.get("fixed", []) + theirs.get("fixed", [])))
closed = list(dict.fromkeys(ours.get("closed_ids", []) + theirs.get("closed_ids", [])))
out = [f for f in out if f["id"] not in closed]
d = {"_format": ours.get("_format") or theirs.get("_format", ""), "findings": out, "fixed": fixed, "closed_ids": closed}
json.dump(d, open("known_findings.json", "w"), indent=1)
print(len(out), "findings,", len(fixed), "fixed")
