#!/usr/bin/env python3
"""Resolve a merge conflict in known_findings.json by taking the union of both sides (by id)."""
import json, re, subprocess, sys
def side(ref):
    try:
        return json.loads(subprocess.check_output(["git", "show", f"{ref}:known_findings.json"], text=True)).get("findings", [])
    except Exception:
        return []
ours, theirs = side("HEAD"), side("MERGE_HEAD")
out, seen = [], set()
for f in ours + theirs:
    if f["id"] not in seen:
        seen.add(f["id"]); out.append(f)
json.dump({"findings": out}, open("known_findings.json", "w"), indent=1)
print(len(out), "findings")
