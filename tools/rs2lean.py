"""rs2lean — translator for straight-line Rust bit kernels into Lean 4 `BitVec` definitions.

Accepted subset (anything else raises `Unsupported`, which fails the run for the properties that
depend on the kernel; the translator never guesses):

  fn name(params: uN, ...) -> uN | (uN, uN)
  body:  `const NAME: uN = expr;`  `let [mut] x [: uN] = expr;`  `x = expr;`  `x op= expr;`
         final expression (optionally a tuple), block expressions `{ stmts; expr }`
  expr:  integer literals (hex/dec/bin, `_`, optional suffix), identifiers, parentheses,
         unary `!`, binary `| ^ & << >> + - *` (Rust precedence), `e as uN`, `uN::from(e)`,
         methods `.wrapping_add/sub/mul(e)`, `.count_ones()`, calls to other translated kernels.

Semantics: every `uN` is `BitVec N`; `+ - *` are the wrapping operations (Rust's overflow panic in
debug builds is outside the model; the kernels translated here are proved not to depend on it where
it matters).  Shifts by a literal become shifts by a `Nat` literal; shifts by an expression use
`.toNat` (Rust masks/panics for amounts >= width; kernels here never reach that, checked by the
correspondence run).
"""
import re


class Unsupported(Exception):
    pass


TOK = re.compile(r"""
    (?P<ws>\s+|//[^\n]*)
  | (?P<num>0x[0-9a-fA-F_]+(?:u8|u16|u32|u64|usize)?|0b[01_]+(?:u8|u16|u32|u64|usize)?|[0-9][0-9_]*(?:u8|u16|u32|u64|usize)?)
  | (?P<id>[A-Za-z_][A-Za-z0-9_]*)
  | (?P<op><<=|>>=|\|=|\^=|&=|\+=|-=|\*=|<<|>>|::|->|[-+*!&|^(){};:,=.<>])
""", re.X)

WIDTH = {"u8": 8, "u16": 16, "u32": 32, "u64": 64, "usize": 64}


def tokenize(src):
    out, i = [], 0
    while i < len(src):
        m = TOK.match(src, i)
        if not m:
            raise Unsupported(f"cannot tokenize at: {src[i:i+30]!r}")
        i = m.end()
        if m.lastgroup == "ws":
            continue
        out.append((m.lastgroup, m.group(m.lastgroup)))
    return out


class Val:
    """A translated expression: Lean text plus bit width (None = untyped literal, int value)."""
    def __init__(self, text, width, lit=None):
        self.text, self.width, self.lit = text, width, lit


def lit_to(v, width):
    if v.width is None:
        return Val(f"({v.lit}#{width})", width, v.lit)
    return v


class Translator:
    def __init__(self, known_fns=None, consts=None):
        self.known = known_fns or {}      # name -> (lean_name, [param widths], ret widths tuple)
        self.global_consts = consts or {}  # name -> (value, width)
        self.resolver = None               # name -> source text of a helper fn in the same file
        self.helper_prefix = ""
        self.helpers = []                  # Lean text of helpers translated on demand

    # ---- parsing helpers
    def peek(self, k=0):
        return self.toks[self.pos + k] if self.pos + k < len(self.toks) else ("eof", "")

    def eat(self, val=None, kind=None):
        t = self.peek()
        if (val is not None and t[1] != val) or (kind is not None and t[0] != kind):
            raise Unsupported(f"expected {val or kind}, got {t}")
        self.pos += 1
        return t

    def at(self, val):
        return self.peek()[1] == val

    # ---- expression grammar (Rust precedence: * > + - > << >> > & > ^ > |)
    LEVELS = [["|"], ["^"], ["&"], ["<<", ">>"], ["+", "-"], ["*"]]

    def expr(self, lvl=0):
        if lvl == len(self.LEVELS):
            return self.cast()
        lhs = self.expr(lvl + 1)
        while self.peek()[1] in self.LEVELS[lvl] and self.peek(1)[1] != "=":
            op = self.eat()[1]
            rhs = self.expr(lvl + 1)
            lhs = self.binop(op, lhs, rhs)
        return lhs

    def binop(self, op, a, b):
        if op in ("<<", ">>"):
            lop = "<<<" if op == "<<" else ">>>"
            if a.width is None:
                raise Unsupported("shift of untyped literal")
            if b.lit is not None:
                return Val(f"({a.text} {lop} {b.lit})", a.width)
            return Val(f"({a.text} {lop} ({b.text}).toNat)", a.width)
        if a.width is None and b.width is None:
            raise Unsupported("binary op on two untyped literals")
        w = a.width if a.width is not None else b.width
        a, b = lit_to(a, w), lit_to(b, w)
        if a.width != b.width:
            raise Unsupported(f"width mismatch {a.width} vs {b.width} in {op}")
        lop = {"|": "|||", "^": "^^^", "&": "&&&", "+": "+", "-": "-", "*": "*"}[op]
        return Val(f"({a.text} {lop} {b.text})", w)

    def cast(self):
        v = self.unary()
        while self.at("as"):
            self.eat()
            ty = self.eat(kind="id")[1]
            if ty not in WIDTH:
                raise Unsupported(f"cast to {ty}")
            w = WIDTH[ty]
            v = lit_to(v, w) if v.width is None else Val(f"(({v.text}).setWidth {w})", w)
        return v

    def unary(self):
        if self.at("!"):
            self.eat()
            v = self.unary()
            if v.width is None:
                raise Unsupported("! on untyped literal")
            return Val(f"(~~~{v.text})", v.width)
        return self.postfix()

    def postfix(self):
        v = self.primary()
        while self.at("."):
            self.eat()
            m = self.eat(kind="id")[1]
            self.eat("(")
            if m == "count_ones":
                self.eat(")")
                if v.width is None:
                    raise Unsupported("count_ones on literal")
                v = Val(f"(SV.popcountBV{v.width} {v.text})", 32)
            elif m in ("wrapping_add", "wrapping_sub", "wrapping_mul"):
                arg = self.expr()
                self.eat(")")
                op = {"wrapping_add": "+", "wrapping_sub": "-", "wrapping_mul": "*"}[m]
                v = self.binop(op, v, arg)
            else:
                raise Unsupported(f"method {m}")
        return v

    def primary(self):
        k, t = self.peek()
        if k == "num":
            self.eat()
            m = re.match(r"(0x[0-9a-fA-F_]+?|0b[01_]+?|[0-9][0-9_]*?)(u8|u16|u32|u64|usize)?$", t)
            val = int(m.group(1).replace("_", ""), 0)
            if m.group(2):
                w = WIDTH[m.group(2)]
                return Val(f"({val}#{w})", w, val)
            return Val(str(val), None, val)
        if t == "(":
            self.eat()
            v = self.expr()
            self.eat(")")
            return v
        if t == "{":
            return self.block()
        if k == "id":
            self.eat()
            if t in WIDTH and self.at("::"):
                self.eat("::")
                f = self.eat(kind="id")[1]
                if f == "from":
                    self.eat("(")
                    v = self.expr()
                    self.eat(")")
                    w = WIDTH[t]
                    if v.width is None:
                        return lit_to(v, w)
                    return Val(f"(({v.text}).setWidth {w})", w)
                if f == "MAX":
                    w = WIDTH[t]
                    return Val(f"({(1 << w) - 1}#{w})", w, (1 << w) - 1)
                raise Unsupported(f"{t}::{f}")
            if self.at("("):
                if t not in self.known and self.resolver is not None:
                    # helper defined in the same source file: translate it on demand
                    src = self.resolver(t)
                    if src is not None:
                        saved = (self.toks, self.pos, self.env, self.counter)
                        sub = self.translate_fn(src, self.helper_prefix + t)
                        self.helpers.append(sub)
                        self.toks, self.pos, self.env, self.counter = saved
                if t not in self.known:
                    raise Unsupported(f"call to untranslated fn {t}")
                lean_name, pws, rws = self.known[t]
                self.eat("(")
                args = []
                while not self.at(")"):
                    args.append(self.expr())
                    if self.at(","):
                        self.eat()
                self.eat(")")
                if len(args) != len(pws):
                    raise Unsupported(f"arity of {t}")
                args = [lit_to(a, w) for a, w in zip(args, pws)]
                if len(rws) != 1:
                    raise Unsupported("tuple-returning call inside expression")
                return Val(f"({lean_name} {' '.join(a.text for a in args)})", rws[0])
            if t in self.env:
                return Val(self.env[t][0], self.env[t][1])
            if t in self.global_consts:
                val, w = self.global_consts[t]
                return Val(f"({val}#{w})", w, val)
            raise Unsupported(f"unknown identifier {t}")
        raise Unsupported(f"unexpected token {t!r}")

    # ---- statements
    def block(self):
        self.eat("{")
        saved = dict(self.env)
        lets = []
        result = None
        while not self.at("}"):
            r = self.stmt(lets)
            if r is not None:
                result = r
                break
        self.eat("}")
        self.env = saved
        if result is None:
            raise Unsupported("block without value")
        text = "".join(f"let {n} := {e};\n    " for n, e in lets) + result.text
        return Val(f"({text})", result.width)

    def fresh(self, name):
        self.counter[name] = self.counter.get(name, 0) + 1
        c = self.counter[name]
        return name if c == 1 else f"{name}_{c}"

    def stmt(self, lets):
        """Parse one statement; append (leanName, leanExpr) to lets; return Val if it is the
        trailing expression."""
        k, t = self.peek()
        if t in ("const", "let"):
            self.eat()
            if self.at("mut"):
                self.eat()
            name = self.eat(kind="id")[1]
            w = None
            if self.at(":"):
                self.eat()
                ty = self.eat(kind="id")[1]
                if ty not in WIDTH:
                    raise Unsupported(f"type {ty}")
                w = WIDTH[ty]
            self.eat("=")
            v = self.expr()
            self.eat(";")
            if v.width is None:
                if w is None:
                    raise Unsupported(f"untyped literal binding {name}")
                v = lit_to(v, w)
            elif w is not None and v.width != w:
                raise Unsupported(f"declared width {w} != {v.width} for {name}")
            ln = self.fresh(name)
            lets.append((ln, v.text))
            self.env[name] = (ln, v.width)
            return None
        if k == "id" and t in self.env and self.peek(1)[1] in ("=", "|=", "^=", "&=", "+=", "-=", "*=", "<<=", ">>="):
            self.eat()
            op = self.eat()[1]
            rhs = self.expr()
            self.eat(";")
            cur = Val(self.env[t][0], self.env[t][1])
            v = lit_to(rhs, cur.width) if op == "=" else self.binop(op[:-1], cur, rhs)
            if v.width != cur.width:
                raise Unsupported("assignment width mismatch")
            ln = self.fresh(t)
            lets.append((ln, v.text))
            self.env[t] = (ln, v.width)
            return None
        # trailing expression or tuple
        if t == "(":
            # maybe a tuple
            save = self.pos
            self.eat()
            first = self.expr()
            if self.at(","):
                items = [first]
                while self.at(","):
                    self.eat()
                    if self.at(")"):
                        break
                    items.append(self.expr())
                self.eat(")")
                return Val("(" + ", ".join(i.text for i in items) + ")", tuple(i.width for i in items))
            self.pos = save
        v = self.expr()
        if self.at(";"):
            raise Unsupported("expression statement")
        return v

    def translate_fn(self, src, lean_name):
        """src: text of `fn name(params) -> ret { body }` (attributes stripped)."""
        self.toks = tokenize(src)
        self.pos = 0
        self.env, self.counter = {}, {}
        while self.peek()[1] in ("pub", "unsafe", "const") or (self.at("(") and self.peek(1)[1] == "crate"):
            if self.at("("):
                self.eat(); self.eat(); self.eat(")")
            else:
                self.eat()
        self.eat("fn")
        name = self.eat(kind="id")[1]
        self.eat("(")
        params = []
        while not self.at(")"):
            if self.at("mut"):
                self.eat()
            p = self.eat(kind="id")[1]
            self.eat(":")
            ty = self.eat(kind="id")[1]
            if ty not in WIDTH:
                raise Unsupported(f"param type {ty}")
            params.append((p, WIDTH[ty]))
            if self.at(","):
                self.eat()
        self.eat(")")
        self.eat("->")
        rets = []
        if self.at("("):
            self.eat()
            while not self.at(")"):
                rets.append(WIDTH[self.eat(kind="id")[1]])
                if self.at(","):
                    self.eat()
            self.eat(")")
        else:
            rets.append(WIDTH[self.eat(kind="id")[1]])
        for p, w in params:
            self.env[p] = (p, w)
            self.counter[p] = 1
        self.eat("{")
        lets, result = [], None
        while not self.at("}"):
            r = self.stmt(lets)
            if r is not None:
                result = r
                break
        self.eat("}")
        if result is None:
            raise Unsupported("no result expression")
        rw = result.width if isinstance(result.width, tuple) else (result.width,)
        if tuple(rets) != tuple(rw):
            if len(rets) == 1 and result.width is None:
                result = lit_to(result, rets[0])
            else:
                raise Unsupported(f"return width {rw} != declared {rets}")
        ptxt = " ".join(f"({p} : BitVec {w})" for p, w in params)
        rty = " × ".join(f"BitVec {w}" for w in rets)
        body = "".join(f"  let {n} := {e}\n" for n, e in lets) + f"  {result.text}\n"
        self.known[name] = (lean_name, [w for _, w in params], tuple(rets))
        return f"def {lean_name} {ptxt} : {rty} :=\n{body}"


def extract_fn(text, name):
    """Return the source text of `fn name...{...}` from a Rust file (brace matched)."""
    m = re.search(r"(?:pub(?:\([a-z]+\))?\s+)?(?:unsafe\s+)?fn\s+" + re.escape(name) + r"\s*\(", text)
    if not m:
        raise Unsupported(f"fn {name} not found")
    i = text.index("{", m.end())
    depth, j = 0, i
    while True:
        c = text[j]
        if c == "{":
            depth += 1
        elif c == "}":
            depth -= 1
            if depth == 0:
                break
        j += 1
    return text[m.start():j + 1]


def extract_let_block(fn_src, var):
    """Return text `{...}` of `let var = { ... };` inside a function source."""
    m = re.search(r"let\s+" + re.escape(var) + r"\s*=\s*\{", fn_src)
    if not m:
        raise Unsupported(f"let {var} = {{...}} not found")
    i = m.end() - 1
    depth, j = 0, i
    while True:
        c = fn_src[j]
        if c == "{":
            depth += 1
        elif c == "}":
            depth -= 1
            if depth == 0:
                break
        j += 1
    return fn_src[i:j + 1]


# ==================================================================================================
# Lane translator (EXTRACT kind "lanes"): per-lane x86 SIMD intrinsic DAGs -> `BitVec 8` functions
# ==================================================================================================
#
# Accepted subset (anything else raises `Unsupported`; never guessed):
#
#   * vector values: parameters / `let` bindings named in the spec's "inputs" (their defining
#     expression, typically a load or a cross-lane shift, is NOT translated; its source text is
#     recorded so a change shows up in the generated file), `let [mut] x = <vec expr>;`,
#     re-assignments `x = <vec expr>;`, `*x = <vec expr>;` at any nesting depth, taken in source
#     order (the DAG must not depend on control flow: only the bindings an output needs are parsed)
#   * vec expr: `_mm{,256}_set1_epi8(<byte expr>)`, `setzero_si128/256()`, `cmpeq_epi8`, `cmpgt_epi8`
#     (signed), `or/and/xor/andnot_si128/256`, `add/sub_epi8`, `adds/subs_epu8`, `min/max_epu8`,
#     `srli/slli_epi16(x, n)` ONLY directly under `and_si*` with a constant byte mask that removes
#     every bit shifted in from the neighbouring byte, calls to helper fns of the same file whose
#     body is again in this subset (inlined), `unsafe { e }`, parentheses
#   * byte expr: integer / `b'x'` literals, `-lit`, `+`/`-` of constants, `as i8` / `as u8` casts,
#     file-level `const NAME: i8|u8`, scalar `i8`/`u8` parameters (become extra `BitVec 8` arguments)
#   * outputs: "return" (trailing expression), "return.<field>" (struct literal field),
#     "return.<n>" (tuple component), "<var>" (last binding of that name) or "<var>#k" (k-th
#     binding, 0-based); an optional ".then"/".else" suffix selects a branch of an `if c {a} else {b}`
#     output expression explicitly.  `_mm*_movemask_epi8(e) [as T]*` marks a mask output whose lane
#     is `e`.
#   * "pins": [names]: bindings that are NOT translated (scalar mask arithmetic, cross-lane code) but
#     whose source text (all bindings / re-assignments of that name, in order) is emitted as
#     `<lean>_pin_<name>_src : List String`, so that a property can pin it with a `decide`d equality.
#   * cross-lane intrinsics (`alignr`, `permute*`, `shuffle*`, `sad_epu8`, `unpack*`, `pack*`,
#     `slli/srli_si128`, `bslli/bsrli`, `blendv`, `insert/extract`, loads) anywhere in the slice of an
#     output that is not a declared input -> Unsupported.

LTOK = re.compile(r"""
    (?P<ws>\s+|//[^\n]*|/\*.*?\*/)
  | (?P<attr>\#!?\[[^\]]*\])
  | (?P<bchar>b'(?:\\x[0-9a-fA-F]{2}|\\.|[^'\\])')
  | (?P<str>b?"(?:\\.|[^"\\])*")
  | (?P<num>0x[0-9a-fA-F_]+(?:[iu](?:8|16|32|64|size))?|0b[01_]+(?:[iu](?:8|16|32|64|size))?|[0-9][0-9_]*(?:[iu](?:8|16|32|64|size))?)
  | (?P<id>[A-Za-z_][A-Za-z0-9_]*)
  | (?P<op>::|->|=>|==|!=|<=|>=|&&|\|\||<<=|>>=|<<|>>|\.\.=|\.\.|[-+*/%^!&|=<>(){}\[\];:,.?@#$'~\\])
""", re.X | re.S)

CROSS_LANE = re.compile(
    r"alignr|permute|shuffle|sad_epu8|unpack|packs|packus|_si128$|bslli|bsrli|blendv|insert|extract|"
    r"loadu?_|lddqu|storeu?_|gather|broadcast|cvt|madd|mullo|mulhi|hadd|hsub|minpos|testz|testc|movemask_p")

VEC_TYPES = ("__m128i", "__m256i", "__m512i")


def ltokenize(src):
    out, i = [], 0
    while i < len(src):
        m = LTOK.match(src, i)
        if not m:
            out.append(("op", src[i]))
            i += 1
            continue
        i = m.end()
        if m.lastgroup in ("ws", "attr"):
            continue
        out.append((m.lastgroup, m.group(m.lastgroup)))
    return out


def bchar_value(tok):
    body = tok[2:-1]
    if body.startswith("\\x"):
        return int(body[2:], 16)
    if body.startswith("\\"):
        return {"n": 10, "r": 13, "t": 9, "0": 0, "\\": 92, "'": 39, '"': 34}[body[1]]
    return ord(body)


class LNode:
    """A lane value: kind 'vec' (Lean BitVec 8 text), 'byte' (constant int or symbolic text),
    'shift' (srli/slli awaiting its mask), 'mask' (movemask marker around a vec)."""
    def __init__(self, kind, text=None, const=None, extra=None):
        self.kind, self.text, self.const, self.extra = kind, text, const, extra


def byte_lit(v):
    return f"0x{v % 256:02X}#8"


class LaneTranslator:
    def __init__(self, file_text, fn_name, inputs, file_consts=None):
        self.file_text = file_text
        self.fn_name = fn_name
        self.inputs = list(inputs)
        self.file_consts = file_consts if file_consts is not None else self.scan_consts(file_text)

    # ---- file-level byte constants: `const NAME: i8|u8 = <byte expr>;`
    @staticmethod
    def scan_consts(text):
        consts = {}
        for m in re.finditer(r"const\s+([A-Z][A-Z0-9_]*)\s*:\s*(i8|u8)\s*=\s*([^;]+);", text):
            consts[m.group(1)] = m.group(3)
        return consts

    # ---- function header / body
    @staticmethod
    def extract_fn_any(text, name):
        """Like `extract_fn`, also for generic fns (`fn name<const X: bool>(...)`)."""
        m = re.search(r"\bfn\s+" + re.escape(name) + r"\s*(?:<[^>(]*>)?\s*\(", text)
        if not m:
            raise Unsupported(f"fn {name} not found")
        i = text.index("{", m.end())
        depth, j = 0, i
        while True:
            c = text[j]
            if c == "{":
                depth += 1
            elif c == "}":
                depth -= 1
                if depth == 0:
                    break
            j += 1
        return text[m.start():j + 1]

    def load_fn(self, name):
        src = self.extract_fn_any(self.file_text, name)
        toks = ltokenize(src)
        i = 0
        while toks[i][1] != "fn":
            i += 1
        i += 2  # fn name
        # generic params <...>
        if toks[i][1] == "<":
            depth = 0
            while True:
                if toks[i][1] == "<":
                    depth += 1
                elif toks[i][1] == ">":
                    depth -= 1
                    if depth == 0:
                        i += 1
                        break
                i += 1
        assert toks[i][1] == "("
        i += 1
        params = []  # (name, kind) kind in vec|byte|mutvec|other
        depth = 1
        cur = []
        while depth > 0:
            t = toks[i]
            if t[1] in ("(", "<", "["):
                depth += 1
            elif t[1] in (")", ">", "]"):
                depth -= 1
                if depth == 0:
                    if cur:
                        params.append(cur)
                    break
            if t[1] == "," and depth == 1:
                params.append(cur)
                cur = []
            else:
                cur.append(t)
            i += 1
        i += 1
        plist = []
        for p in params:
            p = [t for t in p if t[1] != "mut" or p.index(t) == 0]
            names = [t[1] for t in p]
            if ":" not in names:
                continue
            k = names.index(":")
            pname = [n for n in names[:k] if n != "mut"][-1]
            ty = names[k + 1:]
            if ty and ty[-1] in VEC_TYPES:
                kind = "mutvec" if "&" in ty else "vec"
            elif ty == ["i8"] or ty == ["u8"]:
                kind = "byte"
            else:
                kind = "other"
            plist.append((pname, kind))
        # body tokens: from first '{' after the header to its match
        while toks[i][1] != "{":
            i += 1
        depth, j = 0, i
        while True:
            if toks[j][1] == "{":
                depth += 1
            elif toks[j][1] == "}":
                depth -= 1
                if depth == 0:
                    break
            j += 1
        return plist, toks[i + 1:j]

    # ---- statement scan: bindings in source order at any depth
    @staticmethod
    def scan_bindings(body):
        """Return [(name, expr_tokens, brace_depth, is_let)] for `let [mut] name [: T] = e;`,
        `name = e;`, `*name = e;` in source order."""
        n = len(body)
        i = 0
        res = []
        depth_at = []
        d = 0
        for _k, _t in body:
            depth_at.append(d)
            if _t == "{":
                d += 1
            elif _t == "}":
                d -= 1
                depth_at[-1] = d

        def expr_until_semicolon(k):
            depth, j = 0, k
            while j < n:
                t = body[j][1]
                if t in ("(", "{", "["):
                    depth += 1
                elif t in (")", "}", "]"):
                    if depth == 0:
                        break
                    depth -= 1
                elif t == ";" and depth == 0:
                    break
                j += 1
            return body[k:j], j

        while i < n:
            k, t = body[i]
            if t == "let":
                j = i + 1
                if body[j][1] == "mut":
                    j += 1
                if body[j][0] == "id" and body[j + 1][1] in ("=", ":"):
                    name = body[j][1]
                    j += 1
                    if body[j][1] == ":":
                        while body[j][1] != "=":
                            j += 1
                    e, _ = expr_until_semicolon(j + 1)
                    res.append((name, e, depth_at[i], True))
                    i = j + 1        # continue scanning inside the expression as well (nested blocks)
                    continue
                i += 1
                continue
            prev = body[i - 1][1] if i > 0 else ";"
            if k == "id" and prev in (";", "{", "}") and i + 1 < n and body[i + 1][1] == "=" :
                e, _ = expr_until_semicolon(i + 2)
                res.append((t, e, depth_at[i], False))
                i += 2
                continue
            if k == "id" and prev in (";", "{", "}") and i + 2 < n and body[i + 1][1] in ("|", "&", "^", "+", "-") \
                    and body[i + 2][1] == "=":
                # `name op= e;` (scalar mask arithmetic): recorded as a re-assignment `name op e`
                e, _ = expr_until_semicolon(i + 3)
                res.append((t, [body[i], body[i + 1]] + e, depth_at[i], False))
                i += 3
                continue
            if t == "*" and prev in (";", "{", "}") and i + 2 < n and body[i + 1][0] == "id" and body[i + 2][1] == "=":
                e, _ = expr_until_semicolon(i + 3)
                res.append((body[i + 1][1], e, depth_at[i], False))
                i += 3
                continue
            i += 1
        return res

    @staticmethod
    def trailing_expr(body):
        """Tokens of the trailing expression of a block body (after the last top-level `;`/`}`-ended
        statement); unwraps a body that is a single `unsafe { ... }` block."""
        while True:
            if body and body[0][1] == "unsafe" and body[1][1] == "{":
                # does the unsafe block span the whole body?
                depth = 0
                for j in range(1, len(body)):
                    if body[j][1] == "{":
                        depth += 1
                    elif body[j][1] == "}":
                        depth -= 1
                        if depth == 0:
                            break
                if j == len(body) - 1:
                    body = body[2:-1]
                    continue
            break
        depth, last = 0, 0
        j = 0
        n = len(body)
        while j < n:
            t = body[j][1]
            if t in ("(", "{", "["):
                depth += 1
            elif t in (")", "}", "]"):
                depth -= 1
                if depth == 0 and t == "}" and last < n and body[last][1] in ("if", "while", "for", "loop", "match", "unsafe"):
                    # a block statement (`if c { .. }`, `while .. { .. }`) ends here unless the
                    # expression continues (`else`, method call, cast) or it is the trailing value
                    nxt = body[j + 1][1] if j + 1 < n else None
                    if nxt is not None and nxt not in ("else", ".", "as", "?"):
                        last = j + 1
            elif t == ";" and depth == 0:
                last = j + 1
            j += 1
        return body[last:], body[:last]

    # ---- expression translation --------------------------------------------------------------
    class P:
        def __init__(self, toks):
            self.t, self.i = toks, 0

        def peek(self, k=0):
            return self.t[self.i + k] if self.i + k < len(self.t) else ("eof", "")

        def eat(self, val=None):
            t = self.peek()
            if val is not None and t[1] != val:
                raise Unsupported(f"expected {val!r}, got {t[1]!r}")
            self.i += 1
            return t

        def at(self, v):
            return self.peek()[1] == v

        def done(self):
            return self.i >= len(self.t)

    def translate(self, outputs):
        """Return (args, lets-and-defs per output) as Lean text pieces."""
        params, body = self.load_fn(self.fn_name)
        self.scalar_params = [p for p, k in params if k == "byte"]
        self.used_scalars = []
        bindings = self.scan_bindings(body)
        trailing, _ = self.trailing_expr(body)
        # environment: name -> list of versions; version = ('input',) | ('expr', tokens, index)
        self.versions = {}
        order = []
        for p, k in params:
            if k in ("vec", "mutvec"):
                self.versions.setdefault(p, []).append(("param", None, len(order)))
                order.append(p)
        let_depth = {}
        for idx, (name, e, depth, is_let) in enumerate(bindings):
            kind = "expr"
            if is_let:
                let_depth[name] = depth
            elif name in let_depth and depth > let_depth[name]:
                kind = "cond"       # re-assigned inside a nested block: value depends on control flow
            self.versions.setdefault(name, []).append((kind, e, len(order) + idx))
        self.pin_src = {}
        for name in getattr(self, "pins", []):
            if name not in self.versions or not any(v[0] != "param" for v in self.versions[name]):
                raise Unsupported(f"pinned binding {name} not found in {self.fn_name}")
            self.pin_src[name] = [" ".join(t[1] for t in v[1]) for v in self.versions[name] if v[0] != "param"]
        self.input_src = {}
        for name in self.inputs:
            if name not in self.versions:
                raise Unsupported(f"declared input {name} is neither a vector parameter nor a binding of {self.fn_name}")
            for v in self.versions[name]:
                if v[0] in ("expr", "cond"):
                    self.input_src.setdefault(name, []).append(" ".join(t[1] for t in v[1]))
        results = []
        all_scalars = set()
        for out in outputs:
            self.lets, self.memo, self.names = [], {}, {}
            self.used_inputs, self.used_scalars = [], []
            node = self.output_node(out, trailing, len(order) + len(bindings))
            if node.kind == "mask":
                node = node.extra
            if node.kind != "vec":
                raise Unsupported(f"output {out} is not a lane value ({node.kind})")
            results.append((out, list(self.lets), node.text, list(self.used_inputs)))
            all_scalars.update(self.used_scalars)
        # argument list of an output: the declared inputs its DAG reads (declared order), then every
        # scalar parameter read by ANY output of this entry (parameter order) -- the scalar part is
        # the same for all outputs so that which parameter feeds which mask stays visible
        final = []
        for out, lets, text, used in results:
            args = [i for i in self.inputs if i in used] + [p for p in self.scalar_params if p in all_scalars]
            args = [a + "_v" if a in self.LEAN_RESERVED else a for a in args]
            final.append((out, lets, text, args))
        return final

    def output_node(self, out, trailing, end_pos):
        parts = out.split(".")
        head = parts[0]
        sel = parts[1:]
        if head == "return":
            toks = trailing
            if not toks:
                raise Unsupported("function has no trailing expression")
            pos = end_pos
            toks, sel = self.select(toks, sel)
            return self.vexpr_all(toks, pos)
        name, _, k = head.partition("#")
        if name not in self.versions:
            raise Unsupported(f"output variable {name} not bound in {self.fn_name}")
        vs = self.versions[name]
        v = vs[int(k)] if k else vs[-1]
        if v[0] == "cond":
            raise Unsupported(f"output {out}: re-assigned inside a nested block (control-flow dependent)")
        if v[0] != "expr":
            raise Unsupported(f"output {out} is a parameter")
        toks, sel = self.select(v[1], sel)
        return self.vexpr_all(toks, v[2])

    def select(self, toks, sel):
        """Apply explicit selectors: struct field / tuple index / then / else."""
        while sel:
            s, sel = sel[0], sel[1:]
            toks = self.strip_unsafe(toks)
            if s in ("then", "else"):
                if not toks or toks[0][1] != "if":
                    raise Unsupported(f"selector .{s} on a non-`if` expression")
                blocks = self.top_blocks(toks)
                if len(blocks) != 2:
                    raise Unsupported("`if` without exactly then/else blocks")
                toks = blocks[0] if s == "then" else blocks[1]
            elif s.isdigit():
                if toks[0][1] != "(":
                    raise Unsupported("tuple selector on non-tuple")
                items = self.split_commas(toks[1:-1])
                toks = items[int(s)]
            else:
                # struct literal `Name { f: e, ... }`
                if not (toks[0][0] == "id" and toks[1][1] == "{" and toks[-1][1] == "}"):
                    raise Unsupported("field selector on non-struct-literal")
                found = None
                for item in self.split_commas(toks[2:-1]):
                    if item and item[0][1] == s and len(item) > 1 and item[1][1] == ":":
                        found = item[2:]
                if found is None:
                    raise Unsupported(f"struct field {s} not found")
                toks = found
        return toks, sel

    @staticmethod
    def strip_unsafe(toks):
        while toks and toks[0][1] == "unsafe" and toks[1][1] == "{" and toks[-1][1] == "}":
            toks = toks[2:-1]
        return toks

    @staticmethod
    def split_commas(toks):
        items, cur, depth = [], [], 0
        for t in toks:
            if t[1] in ("(", "{", "["):
                depth += 1
            elif t[1] in (")", "}", "]"):
                depth -= 1
            if t[1] == "," and depth == 0:
                items.append(cur)
                cur = []
            else:
                cur.append(t)
        if cur:
            items.append(cur)
        return items

    @staticmethod
    def top_blocks(toks):
        blocks, depth, start = [], 0, None
        for j, t in enumerate(toks):
            if t[1] == "{":
                if depth == 0:
                    start = j
                depth += 1
            elif t[1] == "}":
                depth -= 1
                if depth == 0:
                    blocks.append(toks[start + 1:j])
        return blocks

    def vexpr_all(self, toks, pos):
        p = self.P(self.strip_unsafe(toks))
        node = self.vexpr(p, pos, {})
        while p.at("as"):
            p.eat()
            p.eat()
        if not p.done():
            raise Unsupported(f"unexpected token {p.peek()[1]!r} after lane expression")
        return node

    LEAN_RESERVED = frozenset("""at from have show fun let in do then else if match with matches end open def theorem
        instance where deriving structure class namespace section variable universe local private protected mutual by
        calc for return try catch finally unless break continue mut Type Sort Prop using this obtain suffices assume
        import export macro syntax notation infix infixl infixr prefix postfix abbrev example axiom opaque inductive
        extends nomatch nofun termination_by decreasing_by""".split())

    def fresh(self, name):
        if name in self.LEAN_RESERVED:
            name = name + "_v"
        c = self.names.get(name, 0)
        self.names[name] = c + 1
        return name if c == 0 else f"{name}_{c + 1}"

    def lookup(self, name, pos, local):
        """Value of identifier `name` as seen by an expression at sequence position `pos`."""
        if name in local:
            return local[name]
        if name in self.inputs:
            if name not in self.used_inputs:
                self.used_inputs.append(name)
            return LNode("vec", name + "_v" if name in self.LEAN_RESERVED else name)
        if name in self.scalar_params:
            if name not in self.used_scalars:
                self.used_scalars.append(name)
            return LNode("byte", text=name)
        if name in self.file_consts:
            p = self.P(ltokenize(self.file_consts[name]))
            v = self.bexpr(p, pos, local)
            if not p.done():
                raise Unsupported(f"const {name}: unsupported expression")
            return v
        vs = [v for v in self.versions.get(name, []) if v[2] < pos]
        if not vs:
            raise Unsupported(f"unknown identifier {name}")
        v = vs[-1]
        if v[0] == "param":
            raise Unsupported(f"vector parameter {name} is not a declared input")
        if v[0] == "cond" or any(w[0] == "cond" for w in self.versions.get(name, [])):
            raise Unsupported(f"{name} is re-assigned inside a nested block (control-flow dependent DAG)")
        key = (name, v[2])
        if key in self.memo:
            return self.memo[key]
        node = self.vexpr_all(v[1], v[2])
        if node.kind == "vec":
            ln = self.fresh(name)
            self.lets.append((ln, node.text))
            node = LNode("vec", ln, const=node.const)   # a named `set1` constant stays a constant
        self.memo[key] = node
        return node

    # byte (scalar) expressions: constants fold, parameters stay symbolic
    def bexpr(self, p, pos, local):
        v = self.bterm(p, pos, local)
        while p.peek()[1] in ("+", "-"):
            op = p.eat()[1]
            w = self.bterm(p, pos, local)
            if v.const is not None and w.const is not None:
                v = LNode("byte", const=(v.const + w.const) if op == "+" else (v.const - w.const))
            else:
                v = LNode("byte", text=f"({self.btext(v)} {op} {self.btext(w)})")
        return v

    def bterm(self, p, pos, local):
        k, t = p.peek()
        if t == "-":
            p.eat()
            v = self.bterm(p, pos, local)
            if v.const is None:
                raise Unsupported("negation of a non-constant byte")
            v = LNode("byte", const=-v.const)
        elif t == "(":
            p.eat()
            v = self.bexpr(p, pos, local)
            p.eat(")")
        elif k == "num":
            p.eat()
            m = re.match(r"(0x[0-9a-fA-F_]+?|0b[01_]+?|[0-9][0-9_]*?)([iu](?:8|16|32|64|size))?$", t)
            v = LNode("byte", const=int(m.group(1).replace("_", ""), 0))
        elif k == "bchar":
            p.eat()
            v = LNode("byte", const=bchar_value(t))
        elif k == "id":
            p.eat()
            v = self.lookup(t, pos, local)
            if v.kind != "byte":
                raise Unsupported(f"{t} used as a byte but is a {v.kind}")
        else:
            raise Unsupported(f"unexpected token {t!r} in byte expression")
        while p.at("as"):
            p.eat()
            ty = p.eat()[1]
            if ty not in ("i8", "u8"):
                raise Unsupported(f"byte cast to {ty}")
        return v

    @staticmethod
    def btext(v):
        if v.const is not None:
            if not -128 <= v.const <= 255:
                raise Unsupported(f"byte constant {v.const} out of range")
            return byte_lit(v.const)
        return v.text

    def vec(self, node, what):
        if node.kind == "shift":
            raise Unsupported("srli/slli_epi16 not immediately masked to a byte-wise meaning")
        if node.kind != "vec":
            raise Unsupported(f"{what}: expected a vector lane, got {node.kind}")
        return node.text

    def vexpr(self, p, pos, local):
        k, t = p.peek()
        if t == "(":
            p.eat()
            v = self.vexpr(p, pos, local)
            p.eat(")")
            return v
        if t == "unsafe":
            p.eat()
            p.eat("{")
            v = self.vexpr(p, pos, local)
            p.eat("}")
            return v
        if t == "*":
            p.eat()
            return self.vexpr(p, pos, local)
        if k != "id":
            raise Unsupported(f"unexpected token {t!r} in lane expression")
        if t in ("if", "match", "loop", "while", "for"):
            raise Unsupported(f"`{t}` expression in the lane DAG (an `if` output can be selected with .then/.else)")
        p.eat()
        generic = None
        if p.at("::") and p.peek(1)[1] == "<":
            p.eat(); p.eat()
            g = []
            while not p.at(">"):
                g.append(p.eat())
            p.eat(">")
            generic = g
        if not p.at("("):
            return self.lookup(t, pos, local)
        # call
        p.eat("(")
        argtoks, cur, depth = [], [], 0
        while True:
            tk = p.eat()
            if tk[0] == "eof":
                raise Unsupported("unterminated call")
            if tk[1] in ("(", "{", "["):
                depth += 1
            elif tk[1] in (")", "}", "]"):
                if depth == 0:
                    if cur:
                        argtoks.append(cur)
                    break
                depth -= 1
            if tk[1] == "," and depth == 0:
                argtoks.append(cur)
                cur = []
            else:
                cur.append(tk)
        if generic is not None:
            argtoks.append(generic)
        return self.call(t, argtoks, pos, local)

    def sub_v(self, toks, pos, local):
        p = self.P(toks)
        v = self.vexpr(p, pos, local)
        if not p.done():
            raise Unsupported(f"unexpected token {p.peek()[1]!r} in argument")
        return v

    def sub_b(self, toks, pos, local):
        p = self.P(toks)
        v = self.bexpr(p, pos, local)
        if not p.done():
            raise Unsupported(f"unexpected token {p.peek()[1]!r} in byte argument")
        return v

    def call(self, fn, args, pos, local):
        m = re.match(r"_mm(?:256|512)?_(.*)$", fn)
        if not m:
            return self.inline_helper(fn, args, pos, local)
        op = m.group(1)
        op = re.sub(r"_si(128|256|512)$", "", op) if op in (
            "or_si128", "or_si256", "and_si128", "and_si256", "xor_si128", "xor_si256", "andnot_si128",
            "andnot_si256", "setzero_si128", "setzero_si256") else op
        if op == "set1_epi8":
            b = self.sub_b(args[0], pos, local)
            return LNode("vec", self.btext(b), const=b.const)
        if op == "setzero":
            return LNode("vec", byte_lit(0), const=0)
        if op == "movemask_epi8":
            return LNode("mask", extra=LNode("vec", self.vec(self.sub_v(args[0], pos, local), fn)))
        binops = {"cmpeq_epi8": "SV.Lane.cmpeq", "cmpgt_epi8": "SV.Lane.cmpgt", "andnot": "SV.Lane.andnot",
                  "adds_epu8": "SV.Lane.addsu", "subs_epu8": "SV.Lane.subsu", "min_epu8": "SV.Lane.minu",
                  "max_epu8": "SV.Lane.maxu"}
        infix = {"or": "|||", "xor": "^^^", "add_epi8": "+", "sub_epi8": "-"}
        if op in binops or op in infix:
            a = self.vec(self.sub_v(args[0], pos, local), fn)
            b = self.vec(self.sub_v(args[1], pos, local), fn)
            if op in binops:
                return LNode("vec", f"({binops[op]} {a} {b})")
            return LNode("vec", f"({a} {infix[op]} {b})")
        if op == "and":
            x = self.sub_v(args[0], pos, local)
            y = self.sub_v(args[1], pos, local)
            for s, mk in ((x, y), (y, x)):
                if s.kind == "shift":
                    if mk.kind != "vec" or mk.const is None:
                        raise Unsupported("srli/slli_epi16 masked by a non-constant")
                    dirn, inner, n = s.extra
                    mv = mk.const % 256
                    if dirn == "r" and mv & ~(0xFF >> n) & 0xFF:
                        raise Unsupported(f"srli_epi16 by {n} masked with {mv:#x}: keeps bits of the neighbouring byte")
                    if dirn == "l" and mv & ((1 << n) - 1):
                        raise Unsupported(f"slli_epi16 by {n} masked with {mv:#x}: keeps bits of the neighbouring byte")
                    f = "SV.Lane.srlMasked" if dirn == "r" else "SV.Lane.sllMasked"
                    return LNode("vec", f"({f} {inner} {n} {byte_lit(mv)})")
            return LNode("vec", f"({self.vec(x, fn)} &&& {self.vec(y, fn)})")
        if op in ("srli_epi16", "slli_epi16"):
            inner = self.vec(self.sub_v(args[0], pos, local), fn)
            n = self.sub_b(args[1], pos, local)
            if n.const is None or not 0 <= n.const <= 7:
                raise Unsupported(f"{op} by a non-constant or >7 amount")
            return LNode("shift", extra=("r" if op[1] == "r" else "l", inner, n.const))
        if CROSS_LANE.search(op):
            raise Unsupported(f"cross-lane / memory intrinsic {fn} inside the translated DAG "
                              f"(declare the binding as an input if it is one)")
        raise Unsupported(f"intrinsic {fn} not in the lane subset")

    def inline_helper(self, fn, args, pos, local):
        try:
            params, body = LaneTranslator(self.file_text, fn, [], self.file_consts).load_fn(fn)
        except Unsupported:
            raise Unsupported(f"call to {fn}: not an intrinsic and not a fn of this file")
        params = [(n, k) for n, k in params]
        if len(params) != len(args):
            raise Unsupported(f"arity of helper {fn}")
        new_local = {}
        for (pn, pk), a in zip(params, args):
            if pk == "vec":
                new_local[pn] = LNode("vec", self.vec(self.sub_v(a, pos, local), fn))
            elif pk == "byte":
                new_local[pn] = self.sub_b(a, pos, local)
            else:
                raise Unsupported(f"helper {fn}: parameter {pn} of unsupported type")
        # helper body: its own `let` bindings (simple, in order) then trailing expression
        sub = LaneTranslator(self.file_text, fn, [], self.file_consts)
        sub.scalar_params, sub.used_scalars, sub.used_inputs = [], [], []
        sub.lets, sub.memo, sub.names = self.lets, {}, self.names
        sub.inputs = []
        binds = sub.scan_bindings(body)
        sub.versions = {}
        for idx, (name, e, _d, _l) in enumerate(binds):
            sub.versions.setdefault(name, []).append(("expr", e, idx))
        trailing, _ = sub.trailing_expr(body)
        if not trailing:
            raise Unsupported(f"helper {fn} has no trailing expression")
        # helper-local bindings are inlined as expressions (no let names leak): evaluate eagerly
        loc = dict(new_local)
        for idx, (name, e, _d, is_let) in enumerate(binds):
            if not is_let:
                raise Unsupported(f"helper {fn}: re-assignment of {name}")
            loc[name] = sub.sub_v(sub.strip_unsafe(e), idx, loc)
        node = sub.sub_v(sub.strip_unsafe(trailing), len(binds), loc)
        for s in sub.used_scalars:
            if s not in self.used_scalars:
                self.used_scalars.append(s)
        return node


def translate_lanes(file_text, lean, fn, spec):
    """Return (lean_text, names) for one EXTRACT "lanes" entry."""
    inputs = spec.get("inputs", [])
    outputs = spec.get("outputs", ["return"])
    lt = LaneTranslator(file_text, fn, inputs)
    lt.pins = spec.get("pins", [])
    results = lt.translate(outputs)
    out = []
    for name, srcs in lt.input_src.items():
        lits = ", ".join('"' + s.replace("\\", "\\\\").replace('"', '\\"') + '"' for s in srcs)
        out.append(f"/-- source text of the binding(s) of lane input `{name}` of `{fn}` (not translated: "
                   f"memory / cross-lane; modelled by hand) -/\ndef {lean}_input_{name}_src : List String := [{lits}]\n")
    for name, srcs in lt.pin_src.items():
        lits = ", ".join('"' + x.replace("\\", "\\\\").replace('"', '\\"') + '"' for x in srcs)
        out.append(f"/-- source text of every binding of `{name}` in `{fn}`, in source order (pinned, not "
                   f"translated: outside the lane subset; a change shows up here) -/\n"
                   f"def {lean}_pin_{name}_src : List String := [{lits}]\n")
    for o, lets, text, args in results:
        sig = " ".join(f"({a} : BitVec 8)" for a in args)
        call = " ".join(args)
        oname = "ret" if o == "return" else re.sub(r"[^A-Za-z0-9_]", "_", o[7:] if o.startswith("return.") else o)
        body = "".join(f"  let {n} := {e}\n" for n, e in lets) + f"  {text}\n"
        out.append(f"/-- one lane of output `{o}` of `{fn}` -/\ndef {lean}_{oname}_lane {sig} : BitVec 8 :=\n{body}")
        out.append(f"/-- the movemask bit of that lane -/\ndef {lean}_{oname} {sig} : Bool := ({lean}_{oname}_lane {call}).msb\n")
    return "\n".join(out)
