"""rs2lean — translator for straight-line Rust bit kernels into Lean 4 `BitVec` definitions.

Accepted subset (anything else raises `Unsupported`, which fails the run for the properties that
depend on the kernel; the translator never guesses):

  fn name(params: uN, ...) -> uN | (uN, uN)
  body:  `const NAME: uN = expr;`  `let [mut] x [: uN] = expr;`  `x = expr;`  `x op= expr;`
         final expression (optionally a tuple), block expressions `{ stmts; expr }`
  expr:  integer literals (hex/dec/bin, `_`, optional suffix), identifiers, parentheses,
         unary `!`, binary `| ^ & << >> + - *` (Rust precedence), `e as uN`, `uN::from(e)`,
         methods `.wrapping_add/sub/mul(e)`, `.count_ones()`, calls to other translated kernels.

Semantics: every `uN` is `BitVec N`; `+ - *` are the wrapping operations (Rust's overflow panic in
debug builds is outside the model; the kernels translated here are proved not to depend on it where
it matters).  Shifts by a literal become shifts by a `Nat` literal; shifts by an expression use
`.toNat` (Rust masks/panics for amounts >= width; kernels here never reach that, checked by the
correspondence run).
"""
import re


class Unsupported(Exception):
    pass


TOK = re.compile(r"""
    (?P<ws>\s+|//[^\n]*)
  | (?P<num>0x[0-9a-fA-F_]+(?:u8|u16|u32|u64|usize)?|0b[01_]+(?:u8|u16|u32|u64|usize)?|[0-9][0-9_]*(?:u8|u16|u32|u64|usize)?)
  | (?P<id>[A-Za-z_][A-Za-z0-9_]*)
  | (?P<op><<=|>>=|\|=|\^=|&=|\+=|-=|\*=|<<|>>|::|->|[-+*!&|^(){};:,=.<>])
""", re.X)

WIDTH = {"u8": 8, "u16": 16, "u32": 32, "u64": 64, "usize": 64}


def tokenize(src):
    out, i = [], 0
    while i < len(src):
        m = TOK.match(src, i)
        if not m:
            raise Unsupported(f"cannot tokenize at: {src[i:i+30]!r}")
        i = m.end()
        if m.lastgroup == "ws":
            continue
        out.append((m.lastgroup, m.group(m.lastgroup)))
    return out


class Val:
    """A translated expression: Lean text plus bit width (None = untyped literal, int value)."""
    def __init__(self, text, width, lit=None):
        self.text, self.width, self.lit = text, width, lit


def lit_to(v, width):
    if v.width is None:
        return Val(f"({v.lit}#{width})", width, v.lit)
    return v


class Translator:
    def __init__(self, known_fns=None, consts=None):
        self.known = known_fns or {}      # name -> (lean_name, [param widths], ret widths tuple)
        self.global_consts = consts or {}  # name -> (value, width)
        self.resolver = None               # name -> source text of a helper fn in the same file
        self.helper_prefix = ""
        self.helpers = []                  # Lean text of helpers translated on demand

    # ---- parsing helpers
    def peek(self, k=0):
        return self.toks[self.pos + k] if self.pos + k < len(self.toks) else ("eof", "")

    def eat(self, val=None, kind=None):
        t = self.peek()
        if (val is not None and t[1] != val) or (kind is not None and t[0] != kind):
            raise Unsupported(f"expected {val or kind}, got {t}")
        self.pos += 1
        return t

    def at(self, val):
        return self.peek()[1] == val

    # ---- expression grammar (Rust precedence: * > + - > << >> > & > ^ > |)
    LEVELS = [["|"], ["^"], ["&"], ["<<", ">>"], ["+", "-"], ["*"]]

    def expr(self, lvl=0):
        if lvl == len(self.LEVELS):
            return self.cast()
        lhs = self.expr(lvl + 1)
        while self.peek()[1] in self.LEVELS[lvl] and self.peek(1)[1] != "=":
            op = self.eat()[1]
            rhs = self.expr(lvl + 1)
            lhs = self.binop(op, lhs, rhs)
        return lhs

    def binop(self, op, a, b):
        if op in ("<<", ">>"):
            lop = "<<<" if op == "<<" else ">>>"
            if a.width is None:
                raise Unsupported("shift of untyped literal")
            if b.lit is not None:
                return Val(f"({a.text} {lop} {b.lit})", a.width)
            return Val(f"({a.text} {lop} ({b.text}).toNat)", a.width)
        if a.width is None and b.width is None:
            raise Unsupported("binary op on two untyped literals")
        w = a.width if a.width is not None else b.width
        a, b = lit_to(a, w), lit_to(b, w)
        if a.width != b.width:
            raise Unsupported(f"width mismatch {a.width} vs {b.width} in {op}")
        lop = {"|": "|||", "^": "^^^", "&": "&&&", "+": "+", "-": "-", "*": "*"}[op]
        return Val(f"({a.text} {lop} {b.text})", w)

    def cast(self):
        v = self.unary()
        while self.at("as"):
            self.eat()
            ty = self.eat(kind="id")[1]
            if ty not in WIDTH:
                raise Unsupported(f"cast to {ty}")
            w = WIDTH[ty]
            v = lit_to(v, w) if v.width is None else Val(f"(({v.text}).setWidth {w})", w)
        return v

    def unary(self):
        if self.at("!"):
            self.eat()
            v = self.unary()
            if v.width is None:
                raise Unsupported("! on untyped literal")
            return Val(f"(~~~{v.text})", v.width)
        return self.postfix()

    def postfix(self):
        v = self.primary()
        while self.at("."):
            self.eat()
            m = self.eat(kind="id")[1]
            self.eat("(")
            if m == "count_ones":
                self.eat(")")
                if v.width is None:
                    raise Unsupported("count_ones on literal")
                v = Val(f"(SV.popcountBV{v.width} {v.text})", 32)
            elif m in ("wrapping_add", "wrapping_sub", "wrapping_mul"):
                arg = self.expr()
                self.eat(")")
                op = {"wrapping_add": "+", "wrapping_sub": "-", "wrapping_mul": "*"}[m]
                v = self.binop(op, v, arg)
            else:
                raise Unsupported(f"method {m}")
        return v

    def primary(self):
        k, t = self.peek()
        if k == "num":
            self.eat()
            m = re.match(r"(0x[0-9a-fA-F_]+?|0b[01_]+?|[0-9][0-9_]*?)(u8|u16|u32|u64|usize)?$", t)
            val = int(m.group(1).replace("_", ""), 0)
            if m.group(2):
                w = WIDTH[m.group(2)]
                return Val(f"({val}#{w})", w, val)
            return Val(str(val), None, val)
        if t == "(":
            self.eat()
            v = self.expr()
            self.eat(")")
            return v
        if t == "{":
            return self.block()
        if k == "id":
            self.eat()
            if t in WIDTH and self.at("::"):
                self.eat("::")
                f = self.eat(kind="id")[1]
                if f == "from":
                    self.eat("(")
                    v = self.expr()
                    self.eat(")")
                    w = WIDTH[t]
                    if v.width is None:
                        return lit_to(v, w)
                    return Val(f"(({v.text}).setWidth {w})", w)
                if f == "MAX":
                    w = WIDTH[t]
                    return Val(f"({(1 << w) - 1}#{w})", w, (1 << w) - 1)
                raise Unsupported(f"{t}::{f}")
            if self.at("("):
                if t not in self.known and self.resolver is not None:
                    # helper defined in the same source file: translate it on demand
                    src = self.resolver(t)
                    if src is not None:
                        saved = (self.toks, self.pos, self.env, self.counter)
                        sub = self.translate_fn(src, self.helper_prefix + t)
                        self.helpers.append(sub)
                        self.toks, self.pos, self.env, self.counter = saved
                if t not in self.known:
                    raise Unsupported(f"call to untranslated fn {t}")
                lean_name, pws, rws = self.known[t]
                self.eat("(")
                args = []
                while not self.at(")"):
                    args.append(self.expr())
                    if self.at(","):
                        self.eat()
                self.eat(")")
                if len(args) != len(pws):
                    raise Unsupported(f"arity of {t}")
                args = [lit_to(a, w) for a, w in zip(args, pws)]
                if len(rws) != 1:
                    raise Unsupported("tuple-returning call inside expression")
                return Val(f"({lean_name} {' '.join(a.text for a in args)})", rws[0])
            if t in self.env:
                return Val(self.env[t][0], self.env[t][1])
            if t in self.global_consts:
                val, w = self.global_consts[t]
                return Val(f"({val}#{w})", w, val)
            raise Unsupported(f"unknown identifier {t}")
        raise Unsupported(f"unexpected token {t!r}")

    # ---- statements
    def block(self):
        self.eat("{")
        saved = dict(self.env)
        lets = []
        result = None
        while not self.at("}"):
            r = self.stmt(lets)
            if r is not None:
                result = r
                break
        self.eat("}")
        self.env = saved
        if result is None:
            raise Unsupported("block without value")
        text = "".join(f"let {n} := {e};\n    " for n, e in lets) + result.text
        return Val(f"({text})", result.width)

    def fresh(self, name):
        self.counter[name] = self.counter.get(name, 0) + 1
        c = self.counter[name]
        return name if c == 1 else f"{name}_{c}"

    def stmt(self, lets):
        """Parse one statement; append (leanName, leanExpr) to lets; return Val if it is the
        trailing expression."""
        k, t = self.peek()
        if t in ("const", "let"):
            self.eat()
            if self.at("mut"):
                self.eat()
            name = self.eat(kind="id")[1]
            w = None
            if self.at(":"):
                self.eat()
                ty = self.eat(kind="id")[1]
                if ty not in WIDTH:
                    raise Unsupported(f"type {ty}")
                w = WIDTH[ty]
            self.eat("=")
            v = self.expr()
            self.eat(";")
            if v.width is None:
                if w is None:
                    raise Unsupported(f"untyped literal binding {name}")
                v = lit_to(v, w)
            elif w is not None and v.width != w:
                raise Unsupported(f"declared width {w} != {v.width} for {name}")
            ln = self.fresh(name)
            lets.append((ln, v.text))
            self.env[name] = (ln, v.width)
            return None
        if k == "id" and t in self.env and self.peek(1)[1] in ("=", "|=", "^=", "&=", "+=", "-=", "*=", "<<=", ">>="):
            self.eat()
            op = self.eat()[1]
            rhs = self.expr()
            self.eat(";")
            cur = Val(self.env[t][0], self.env[t][1])
            v = lit_to(rhs, cur.width) if op == "=" else self.binop(op[:-1], cur, rhs)
            if v.width != cur.width:
                raise Unsupported("assignment width mismatch")
            ln = self.fresh(t)
            lets.append((ln, v.text))
            self.env[t] = (ln, v.width)
            return None
        # trailing expression or tuple
        if t == "(":
            # maybe a tuple
            save = self.pos
            self.eat()
            first = self.expr()
            if self.at(","):
                items = [first]
                while self.at(","):
                    self.eat()
                    if self.at(")"):
                        break
                    items.append(self.expr())
                self.eat(")")
                return Val("(" + ", ".join(i.text for i in items) + ")", tuple(i.width for i in items))
            self.pos = save
        v = self.expr()
        if self.at(";"):
            raise Unsupported("expression statement")
        return v

    def translate_fn(self, src, lean_name):
        """src: text of `fn name(params) -> ret { body }` (attributes stripped)."""
        self.toks = tokenize(src)
        self.pos = 0
        self.env, self.counter = {}, {}
        while self.peek()[1] in ("pub", "unsafe", "const") or (self.at("(") and self.peek(1)[1] == "crate"):
            if self.at("("):
                self.eat(); self.eat(); self.eat(")")
            else:
                self.eat()
        self.eat("fn")
        name = self.eat(kind="id")[1]
        self.eat("(")
        params = []
        while not self.at(")"):
            if self.at("mut"):
                self.eat()
            p = self.eat(kind="id")[1]
            self.eat(":")
            ty = self.eat(kind="id")[1]
            if ty not in WIDTH:
                raise Unsupported(f"param type {ty}")
            params.append((p, WIDTH[ty]))
            if self.at(","):
                self.eat()
        self.eat(")")
        self.eat("->")
        rets = []
        if self.at("("):
            self.eat()
            while not self.at(")"):
                rets.append(WIDTH[self.eat(kind="id")[1]])
                if self.at(","):
                    self.eat()
            self.eat(")")
        else:
            rets.append(WIDTH[self.eat(kind="id")[1]])
        for p, w in params:
            self.env[p] = (p, w)
            self.counter[p] = 1
        self.eat("{")
        lets, result = [], None
        while not self.at("}"):
            r = self.stmt(lets)
            if r is not None:
                result = r
                break
        self.eat("}")
        if result is None:
            raise Unsupported("no result expression")
        rw = result.width if isinstance(result.width, tuple) else (result.width,)
        if tuple(rets) != tuple(rw):
            if len(rets) == 1 and result.width is None:
                result = lit_to(result, rets[0])
            else:
                raise Unsupported(f"return width {rw} != declared {rets}")
        ptxt = " ".join(f"({p} : BitVec {w})" for p, w in params)
        rty = " × ".join(f"BitVec {w}" for w in rets)
        body = "".join(f"  let {n} := {e}\n" for n, e in lets) + f"  {result.text}\n"
        self.known[name] = (lean_name, [w for _, w in params], tuple(rets))
        return f"def {lean_name} {ptxt} : {rty} :=\n{body}"


def extract_fn(text, name):
    """Return the source text of `fn name...{...}` from a Rust file (brace matched)."""
    m = re.search(r"(?:pub(?:\([a-z]+\))?\s+)?(?:unsafe\s+)?fn\s+" + re.escape(name) + r"\s*\(", text)
    if not m:
        raise Unsupported(f"fn {name} not found")
    i = text.index("{", m.end())
    depth, j = 0, i
    while True:
        c = text[j]
        if c == "{":
            depth += 1
        elif c == "}":
            depth -= 1
            if depth == 0:
                break
        j += 1
    return text[m.start():j + 1]


def extract_let_block(fn_src, var):
    """Return text `{...}` of `let var = { ... };` inside a function source."""
    m = re.search(r"let\s+" + re.escape(var) + r"\s*=\s*\{", fn_src)
    if not m:
        raise Unsupported(f"let {var} = {{...}} not found")
    i = m.end() - 1
    depth, j = 0, i
    while True:
        c = fn_src[j]
        if c == "{":
            depth += 1
        elif c == "}":
            depth -= 1
            if depth == 0:
                break
        j += 1
    return fn_src[i:j + 1]
