#!/bin/sh
# tools/integrate.sh <id> — bring a builder workspace's results into /repo main and /verif main:
# cherry-pick the repo branch's new non-merge commits (skipping ones already applied), merge the
# verif branch, resolve the generated/union files, regenerate Main.lean and MANIFEST.json.
set -e
ID="$1"
cd /repo
for c in $(git cherry main "ws-$ID" | awk '$1=="+"{print $2}'); do
  if [ "$(git rev-list --parents -n1 $c | wc -w)" -gt 2 ]; then continue; fi
  # already brought over earlier (cherry-picks get new ids; compare by subject line)
  if git log --format=%s main | grep -Fxq "$(git log --format=%s -n1 $c)"; then continue; fi
  echo "cherry-pick $(git log --oneline -n1 $c)"
  if ! git cherry-pick "$c" >/dev/null 2>&1; then
    if [ -z "$(git status --porcelain)" ]; then
      # the change is already on main (empty cherry-pick)
      git cherry-pick --skip >/dev/null 2>&1; echo "  (already applied)"; continue
    elif [ "$(git status --short | grep '^U' | awk '{print $2}')" = "src/verif_hooks.rs" ]; then
      # every builder appends to the hook module: keep ours and append what this commit added
      git checkout --ours src/verif_hooks.rs
      git diff "$c~1" "$c" -- src/verif_hooks.rs | grep '^+' | grep -v '^+++' | sed 's/^+//' >> src/verif_hooks.rs
      git add src/verif_hooks.rs
      git -c core.editor=true cherry-pick --continue >/dev/null 2>&1 || { echo "CHERRY-PICK CONTINUE FAILED $c"; exit 1; }
    else
      git status --short | grep '^U'; echo "CHERRY-PICK CONFLICT $c"; exit 1
    fi
  fi
  cargo build --offline --features verif-hooks 2>&1 | grep -E '^error' -A6 | head -20
  echo "  -> $(git rev-parse --short HEAD)  (was $(git rev-parse --short $c))"
done
cd /verif
git merge --no-edit "ws-$ID" >/dev/null 2>&1 || true
git rm -q --cached lean/Driver/Main.lean lean/SuccinctlyVerif.lean 2>/dev/null || true
for g in lean/Driver/Main.lean lean/SuccinctlyVerif.lean; do git status --short | grep -q "^[UAD][UAD] $g" && { git rm -q --cached "$g" 2>/dev/null; rm -f "$g"; }; done || true
if git status --short | grep -q '^UU known_findings.json'; then python3 tools/merge_kf.py; git add known_findings.json; fi
if git status --short | grep -q '^U\|^AA\|^DU\|^UD'; then git status --short | grep '^U\|^AA\|^DU\|^UD'; echo "UNRESOLVED"; exit 1; fi
python3 tools/gen_main.py
git add -A
git commit -qm "merge ws-$ID" || true
python3 tools/manifest.py
git add -A
git commit -qm "manifest after ws-$ID" -q || true
