#!/usr/bin/env python3
"""run.py — orchestration of one property check (DESIGN §2).

  ./check <Cxx> [--tier quick|thorough] [--replay <file>]
  ./check --setup

Steps: build the harness from /repo's working tree (hooks on) for each feature set the property
needs -> regenerate Generated/*.lean (translator) -> lake build the property's theorem module and
the driver -> axiom audit -> correspondence (harness vs driver on the same request lines) ->
classification / search / known-finding matching -> evidence file -> exit status.
"""
import fcntl, hashlib, json, os, re, subprocess, sys, time

ROOT = os.path.dirname(os.path.dirname(os.path.abspath(__file__)))
sys.path.insert(0, os.path.join(ROOT, "tools"))
import extract  # noqa: E402
import gen_main  # noqa: E402
import props as P  # noqa: E402

REPO = os.environ.get("VERIF_REPO", "/repo")
BUILD = os.path.join(ROOT, ".build")
LEAN = os.path.join(ROOT, "lean")
DRIVER = os.path.join(LEAN, ".lake", "build", "bin", "svdriver")
OUT = os.path.join(ROOT, "out")
ALLOWED_AXIOMS = {"propext", "Classical.choice", "Quot.sound"}
ENV = dict(os.environ, CARGO_NET_OFFLINE="true", CARGO_TERM_COLOR="never", NO_COLOR="1")


def log(msg):
    print(f"[check] {msg}", file=sys.stderr, flush=True)


class Lock:
    def __init__(self, name):
        os.makedirs(BUILD, exist_ok=True)
        self.path = os.path.join(BUILD, name + ".lock")

    def __enter__(self):
        self.f = open(self.path, "w")
        fcntl.flock(self.f, fcntl.LOCK_EX)

    def __exit__(self, *a):
        fcntl.flock(self.f, fcntl.LOCK_UN)
        self.f.close()


def feat_key(features):
    return "default" if not features else "-".join(sorted(features))


def harness_bin(features):
    return os.path.join(BUILD, "target-" + feat_key(features), "release", "svharness")


def build_harness(features):
    """cargo build --release of the harness (path dep on /repo) for one feature set."""
    tdir = os.path.join(BUILD, "target-" + feat_key(features))
    cmd = ["cargo", "build", "--release", "--offline", "--quiet"]
    if features:
        cmd += ["--features", ",".join(features)]
    with Lock("cargo-" + feat_key(features)):
        t0 = time.time()
        r = subprocess.run(cmd, cwd=os.path.join(ROOT, "harness"), env=dict(ENV, CARGO_TARGET_DIR=tdir),
                           capture_output=True, text=True)
    if r.returncode != 0:
        return False, r.stderr[-4000:]
    log(f"harness[{feat_key(features)}] built in {time.time()-t0:.1f}s")
    return True, ""


def build_cli():
    """cargo build --release --features cli,verif-hooks of /repo's binary into .build/target-cli."""
    tdir = os.path.join(BUILD, "target-cli")
    cmd = ["cargo", "build", "--release", "--offline", "--quiet", "--features", "cli,verif-hooks",
           "--bin", "succinctly", "--manifest-path", os.path.join(REPO, "Cargo.toml")]
    with Lock("cargo-cli"):
        t0 = time.time()
        r = subprocess.run(cmd, env=dict(ENV, CARGO_TARGET_DIR=tdir), capture_output=True, text=True)
    if r.returncode != 0:
        return False, r.stderr[-4000:]
    log(f"cli built in {time.time()-t0:.1f}s")
    return True, ""


def cli_bin():
    return os.path.join(BUILD, "target-cli", "release", "succinctly")


def lake_build(targets):
    with Lock("lake"):
        t0 = time.time()
        r = subprocess.run(["lake", "build"] + targets, cwd=LEAN, capture_output=True, text=True)
    log(f"lake build {' '.join(targets)}: rc={r.returncode} in {time.time()-t0:.1f}s")
    return r.returncode == 0, (r.stdout + r.stderr)[-6000:]


AUDIT_TMPL = """import Lean
import {mod}
open Lean Elab Command in
run_cmd do
  let env ← getEnv
  let some idx := env.getModuleIdx? `{mod} | throwError "module not found"
  let names := env.header.moduleData[idx.toNat]!.constNames
  let mut out : Array String := #[]
  for n in names do
    if !n.isInternalDetail then
      match env.find? n with
      | some (.thmInfo _) =>
        let axs ← liftCoreM (collectAxioms n)
        out := out.push s!"THM {{n}} {{axs.toList}}"
      | _ => pure ()
  for l in out.qsort (· < ·) do
    logInfo l
"""


def audit(mod):
    """#print-axioms-style audit of every theorem of a Props module. Returns list of
    (name, [axioms]) or raises."""
    os.makedirs(OUT, exist_ok=True)
    path = os.path.join(OUT, f"audit_{mod.split('.')[-1]}_{os.getpid()}.lean")
    with open(path, "w") as f:
        f.write(AUDIT_TMPL.format(mod=mod))
    try:
        r = subprocess.run(["lake", "env", "lean", path], cwd=LEAN, capture_output=True, text=True)
    finally:
        os.unlink(path)
    thms = []
    for m in re.finditer(r"THM (\S+) \[(.*?)\]", r.stdout):
        axs = [a.strip() for a in m.group(2).split(",") if a.strip()]
        thms.append((m.group(1), axs))
    if r.returncode != 0 and not thms:
        raise RuntimeError("audit failed: " + (r.stdout + r.stderr)[-2000:])
    return thms


def source_scan(files):
    """grep the property's Lean sources for forbidden constructs (outside comments)."""
    bad = []
    pat = re.compile(r"\bsorry\b|\badmit\b|^\s*axiom\s|native_decide|implemented_by|\bunsafe\s|maxHeartbeats\s+0\b")
    for rel in files:
        p = os.path.join(LEAN, rel)
        if not os.path.exists(p):
            continue
        txt = open(p).read()
        txt = re.sub(r"/-.*?-/", "", txt, flags=re.S)
        for i, line in enumerate(txt.split("\n")):
            line = line.split("--")[0]
            if pat.search(line):
                bad.append(f"{rel}:{i+1}: {line.strip()}")
    return bad


def _driver_limits():
    # safety net: a model that over-allocates fails fast (reported as a crashed driver) instead of
    # driving the machine into the kernel's OOM killer
    import resource
    cap = int(os.environ.get("VERIF_DRIVER_MEM_GB", "16")) << 30
    resource.setrlimit(resource.RLIMIT_AS, (cap, cap))


def run_driver(req_lines):
    p = subprocess.run([DRIVER], input="\n".join(req_lines) + "\n", capture_output=True, text=True,
                       preexec_fn=_driver_limits)
    if p.returncode != 0:
        raise RuntimeError(f"driver crashed rc={p.returncode}: {p.stderr[-500:]}")
    out = p.stdout.split("\n")
    if out and out[-1] == "":
        out.pop()
    return out


def run_harness_gen(features, prop, tier, seed, extra_env=None):
    env = dict(ENV)
    if extra_env:
        env.update(extra_env)
    p = subprocess.run([harness_bin(features), "gen", prop, tier, str(seed)], capture_output=True, text=True, env=env)
    if p.returncode != 0:
        raise RuntimeError(f"harness gen failed rc={p.returncode}: {p.stderr[-1000:]}")
    reqs, outs = [], []
    for line in p.stdout.split("\n"):
        if not line:
            continue
        a, _, b = line.partition("\t")
        reqs.append(a)
        outs.append(b)
    return reqs, outs


def run_harness_replay(features, req_lines, extra_env=None):
    env = dict(ENV)
    if extra_env:
        env.update(extra_env)
    p = subprocess.run([harness_bin(features), "replay"], input="\n".join(req_lines) + "\n",
                       capture_output=True, text=True, env=env)
    if p.returncode != 0:
        raise RuntimeError(f"harness replay failed rc={p.returncode}: {p.stderr[-1000:]}")
    outs = []
    for line in p.stdout.split("\n"):
        if not line:
            continue
        outs.append(line.partition("\t")[2])
    return outs


def load_known():
    p = os.path.join(ROOT, "known_findings.json")
    if not os.path.exists(p):
        return []
    return json.load(open(p)).get("findings", [])


def match_known(kf, req, impl, model):
    for key, val in (("req_regex", req), ("impl_regex", impl), ("model_regex", model)):
        if key in kf and not re.search(kf[key], val):
            return False
    return True


def write_replay(prop, seed, kind, payload):
    d = os.path.join(OUT, "replays")
    os.makedirs(d, exist_ok=True)
    h = hashlib.sha1(json.dumps(payload, sort_keys=True).encode()).hexdigest()[:10]
    path = os.path.join(d, f"{prop}-{kind}-{seed}-{h}.json")
    with open(path, "w") as f:
        json.dump(dict(payload, property=prop, kind=kind, seed=seed), f, indent=1)
    return path


def shrink(prop, cfg, features, extra_env, req, still_fails):
    """Property-specific shrinking of one failing request line (optional)."""
    shr = cfg.get("shrink")
    if not shr:
        return req
    cur = req
    # shrinking spawns two processes per candidate: bound it by wall-clock time so a loaded machine
    # cannot turn a found violation into a check that never reports it
    deadline = time.time() + float(os.environ.get("VERIF_SHRINK_SECONDS", "60"))
    for _ in range(200):
        progressed = False
        for cand in shr(cur):
            if time.time() > deadline:
                return cur
            if cand != cur and still_fails(cand):
                cur = cand
                progressed = True
                break
        if not progressed:
            break
    return cur


def check_property(prop, tier, seed, replay=None):
    t_start = time.time()
    cfg = P.PROPS[prop]
    violations = []      # (message, replay_path, no_input_found)
    known_hits = {}
    notes = []
    obligations = []     # (name, ok, detail)
    known = [k for k in load_known() if k["property"] == prop and k.get("status", "open") == "open"]

    # ---- 1. builds from the current working tree
    variants = cfg.get("variants", [{"features": []}])
    built = []
    for v in variants:
        ok, err = build_harness(v["features"])
        if not ok:
            obligations.append((f"build:harness[{feat_key(v['features'])}]", False, err[-800:]))
        else:
            built.append(v)
    if cfg.get("needs_cli"):
        ok, err = build_cli()
        if not ok:
            obligations.append(("build:cli", False, err[-800:]))

    # ---- 2. regenerate the generated model parts
    if built:
        problems, changed = extract.run(harness_bin(built[0]["features"]))
    else:
        problems, changed = extract.run("/nonexistent")
    if changed:
        log(f"Generated/ changed: {changed}")
    for name, msg in problems.items():
        if any(name.startswith(d) or d == name for d in cfg.get("generated", [])):
            obligations.append((f"translate:{name}", False, msg))

    # ---- 3. proofs
    mods = cfg.get("lean_modules", [])
    gen_main.run()
    ok_drv, drv_log = lake_build(["svdriver"])
    if not ok_drv:
        obligations.append(("build:svdriver", False, drv_log[-1500:]))
    for mod in mods:
        ok, out = lake_build([mod])
        if not ok:
            errs = re.findall(r"error: [^\n]*(?:\n(?!\S*(?:error|warning|info|✖|✔))[^\n]*){0,6}", out)
            obligations.append((f"lake:{mod}", False, "\n".join(errs)[:3000] or out[-1500:]))
            continue
        try:
            thms = audit(mod)
        except Exception as e:  # noqa
            obligations.append((f"audit:{mod}", False, str(e)))
            continue
        allow_bv = cfg.get("allow_bv_decide", False)
        for name, axs in thms:
            bad = [a for a in axs if a not in ALLOWED_AXIOMS and not (allow_bv and "_native.bv_decide.ax" in a)]
            obligations.append((f"thm:{name}", not bad, "axioms=" + ",".join(axs)))
        if not thms:
            obligations.append((f"audit:{mod}", False, "no theorems found"))
    bad_src = source_scan(cfg.get("lean_files", []))
    if bad_src:
        obligations.append(("source-scan", False, "; ".join(bad_src)[:1500]))
    for need in cfg.get("required_theorems", []):
        if not any(n == f"thm:{need}" and ok for n, ok, _ in obligations):
            obligations.append((f"required:{need}", False, "theorem missing or not discharged"))

    # ---- 4. correspondence
    evaluations = 0
    distinct = set()
    samples = []
    dist = {}
    disagreements = []   # dicts
    skipped = 0          # CFG["verdict"] said "skip" (no model verdict for that request)
    triples = []         # (req, impl, model), kept only when CFG["counters"] is set
    nontrivial = cfg.get("nontrivial", lambda req, out: True)
    xref = {}
    if ok_drv:
        for v in built:
            extra_env = v.get("env")
            try:
                if replay is not None:
                    reqs = [r for r in replay["request_lines"]]
                    impl = run_harness_replay(v["features"], reqs, extra_env)
                else:
                    corpus = load_corpus(prop)
                    reqs_c = corpus
                    impl_c = run_harness_replay(v["features"], reqs_c, extra_env) if reqs_c else []
                    reqs_g, impl_g = run_harness_gen(v["features"], prop, tier, seed, extra_env)
                    reqs, impl = reqs_c + reqs_g, impl_c + impl_g
                model = run_driver(reqs)
            except Exception as e:  # noqa
                obligations.append((f"correspondence[{feat_key(v['features'])}]", False, str(e)[-1500:]))
                continue
            if len(model) != len(reqs) or len(impl) != len(reqs):
                obligations.append((f"correspondence[{feat_key(v['features'])}]", False,
                                    f"stream length mismatch req={len(reqs)} impl={len(impl)} model={len(model)}"))
                continue
            vname = feat_key(v["features"]) + ("+" + ",".join(f"{k}={x}" for k, x in (extra_env or {}).items()) if extra_env else "")
            canon = cfg.get("canon")
            verdict = cfg.get("verdict")   # optional (req, impl, model) -> "agree" | "disagree" | "skip"
            xops = set(cfg.get("xvariant_ops", []))
            for rq, im, mo in zip(reqs, impl, model):
                evaluations += 1
                if xops and " " in rq and rq.split(" ", 2)[1] in xops:
                    # implementation-vs-implementation across build/dispatch variants: the first
                    # variant's answer is the reference for every later variant; the driver's
                    # answer for these ops is not compared.
                    ref = xref.setdefault(rq, (vname, im))
                    mo = ref[1]
                op = rq.split(" ", 2)[1] if " " in rq else rq
                dist[op] = dist.get(op, 0) + 1
                if nontrivial(rq, im):
                    distinct.add(hashlib.blake2b(rq.encode(), digest_size=8).digest())
                if len(samples) < 6 and (evaluations % 9973 == 1 or evaluations < 3):
                    samples.append({"request": rq[:300], "impl": im[:200], "model": mo[:200], "variant": vname})
                if cfg.get("counters"):
                    triples.append((rq, im, mo))
                if verdict:
                    vd = verdict(rq, im, mo)
                    if vd == "skip":
                        skipped += 1
                    differs = vd == "disagree"
                else:
                    a, b = (canon(rq, im), canon(rq, mo)) if canon else (im, mo)
                    differs = a != b
                if differs:
                    disagreements.append({"variant": vname, "features": v["features"], "env": extra_env,
                                          "request": rq, "impl": im, "model": mo})
    # ---- 5. classify disagreements
    reported = 0
    for d in disagreements:
        kf_hit = None
        for kf in known:
            if match_known(kf, d["request"], d["impl"], d["model"]):
                kf_hit = kf
                break
        if kf_hit is not None:
            known_hits.setdefault(kf_hit["id"], []).append(d)
            continue
        if reported >= 5:
            reported += 1
            continue
        reported += 1
        kind = "impl-panic" if d["impl"].startswith("PANIC") else ("model-spec" if "MODEL-SPEC" in d["model"] else "input")
        req = d["request"]
        if cfg.get("shrink") and replay is None:
            def still(c, d=d):
                try:
                    i2 = run_harness_replay(d["features"], [c], d["env"])[0]
                    m2 = run_driver([c])[0]
                except Exception:  # noqa
                    return False
                if cfg.get("verdict"):
                    return cfg["verdict"](c, i2, m2) == "disagree"
                canon = cfg.get("canon")
                return (canon(c, i2) != canon(c, m2)) if canon else (i2 != m2)
            small = shrink(prop, cfg, d["features"], d["env"], req, still)
            if small != req:
                d = dict(d, shrunk_from=req, request=small)
                d["impl"] = run_harness_replay(d["features"], [small], d["env"])[0]
                d["model"] = run_driver([small])[0]
        path = write_replay(prop, seed, kind, {
            "variant": d["variant"], "features": d["features"], "env": d["env"],
            "request_lines": [d["request"]], "impl_output": d["impl"], "model_output": d["model"],
            "shrunk_from": d.get("shrunk_from"),
            "theorem_or_stream": f"correspondence stream {prop}/{d['request'].split(' ')[1] if ' ' in d['request'] else ''}",
            "explanation": "model is proved equal to the spec; the implementation's answer differs on this input"
                           if kind != "model-spec" else "model disagrees with spec (machinery or unproved model)"})
        violations.append((f"{kind}: {d['request'][:160]} impl={d['impl'][:80]} model={d['model'][:80]}", path, False))

    # ---- 6. broken obligations -> search already happened (step 4); report
    broken = [(n, det) for n, ok, det in obligations if not ok]
    if broken:
        found_input = bool(violations)
        if not found_input:
            path = write_replay(prop, seed, "obligation", {
                "request_lines": [], "theorem_or_stream": [n for n, _ in broken],
                "details": {n: det for n, det in broken},
                "explanation": "proof obligation / correspondence no longer checks; the failing-input search "
                               f"({evaluations} evaluations, tier {tier}) found no input on which implementation and model differ"})
            violations.append(("obligation broken: " + ", ".join(n for n, _ in broken)[:300], path, True))
        else:
            notes.append("broken obligations: " + ", ".join(n for n, _ in broken))

    # ---- 7. evidence
    wall = time.time() - t_start
    n_obl = len(obligations)
    n_ok = sum(1 for _, ok, _ in obligations if ok)
    level = cfg["level"]
    cov = {
        "evaluations": evaluations,
        "distinct_nontrivial": len(distinct),
        "rule": cfg.get("rule", "distinct request lines (hashed) for which the non-triviality predicate of tools/props.py holds"),
        "samples": samples or [{"note": "no correspondence samples (replay or broken build)"}],
        "obligations": n_obl,
        "discharged": n_ok,
        "checker_cmd": f"cd lean && lake build {' '.join(mods)} && lake env lean <audit:{','.join(mods)}>" +
                       (" && lake env leanchecker " + " ".join(mods) if tier == "thorough" else ""),
        "trusted_base": P.TRUSTED_BASE + cfg.get("trusted_base", []),
        "programs": evaluations,
        "disagreements_checked": len(disagreements),
        "explanation": cfg.get("explanation", ""),
        "op_distribution": dist,
        "variants": [feat_key(v["features"]) + (str(v.get("env")) if v.get("env") else "") for v in built],
        "obligation_list": [{"name": n, "ok": ok, "detail": det[:300]} for n, ok, det in obligations],
        "known_finding_hits": {k: len(v) for k, v in known_hits.items()},
        "notes": notes,
        "exhaustive": False,
    }
    if cfg.get("verdict"):
        cov["skipped"] = skipped
    if cfg.get("counters"):
        try:
            cov.update(cfg["counters"](triples) or {})
        except Exception as e:  # noqa
            cov["counters_error"] = str(e)[:300]
    if tier == "thorough" and mods and not broken:
        t0 = time.time()
        r = subprocess.run(["lake", "env", "leanchecker"] + mods, cwd=LEAN, capture_output=True, text=True)
        cov["leanchecker"] = {"rc": r.returncode, "wall_s": round(time.time() - t0, 1), "out": (r.stdout + r.stderr)[-300:]}
        if r.returncode != 0:
            path = write_replay(prop, seed, "obligation", {"request_lines": [], "theorem_or_stream": ["leanchecker"],
                                                          "details": cov["leanchecker"]})
            violations.append(("leanchecker rejected the compiled theorems", path, True))
    ev = {
        "property_id": prop, "tier": tier, "seed": seed, "level": level, "coverage": cov,
        "assumptions": cfg.get("assumptions", []) + ["see coverage.trusted_base"],
        "wall_s": round(wall, 2), "violations": len(violations),
    }
    if replay is None:
        os.makedirs(os.path.join(ROOT, "evidence"), exist_ok=True)
        with open(os.path.join(ROOT, "evidence", f"{prop}.json"), "w") as f:
            json.dump(ev, f, indent=1)

    # ---- 8. report
    for kf in known:
        if kf["id"] in known_hits:
            print(f"KNOWN-FINDING: property={prop} {kf['what']} (id={kf['id']}, {len(known_hits[kf['id']])} hits this run)")
    log(f"{prop} tier={tier} seed={seed}: {evaluations} evaluations, {len(distinct)} distinct non-trivial, "
        f"{n_ok}/{n_obl} obligations, {len(disagreements)} disagreements, {wall:.1f}s")
    if violations:
        for msg, path, noinput in violations:
            log("VIOLATION detail: " + msg)
            print(f"VIOLATION property={prop} replay={path}" + (" no-failing-input-found" if noinput else ""))
        return 1
    return 0


def load_corpus(prop):
    d = os.path.join(ROOT, "corpus", prop)
    lines = []
    if os.path.isdir(d):
        for fn in sorted(os.listdir(d)):
            if fn.endswith(".case"):
                for line in open(os.path.join(d, fn)):
                    line = line.rstrip("\n")
                    if line and not line.startswith("#"):
                        lines.append(line)
    return lines


def setup():
    feats = set()
    need_cli = False
    for cfg in P.PROPS.values():
        for v in cfg.get("variants", [{"features": []}]):
            feats.add(tuple(v["features"]))
        need_cli = need_cli or cfg.get("needs_cli", False)
    import concurrent.futures as cf
    rc = 0
    with cf.ThreadPoolExecutor(max_workers=4) as ex:
        futs = {ex.submit(build_harness, list(f)): f for f in feats}
        if need_cli:
            futs[ex.submit(build_cli)] = "cli"
        for fu in cf.as_completed(futs):
            ok, err = fu.result()
            if not ok:
                print(f"setup: build {futs[fu]} failed:\n{err}", file=sys.stderr)
                rc = 1
    problems, _ = extract.run(harness_bin([]))
    gen_main.run()
    if problems:
        print(f"setup: extractor problems: {problems}", file=sys.stderr)
    ok, out = lake_build([])
    if not ok:
        print(out, file=sys.stderr)
        rc = 1
    return rc


def main(argv):
    if len(argv) >= 2 and argv[1] == "--setup":
        return setup()
    if len(argv) < 2 or argv[1] not in P.PROPS:
        print("usage: check <Cxx> [--tier quick|thorough] [--replay file] | --setup", file=sys.stderr)
        return 2
    prop = argv[1]
    tier = os.environ.get("VERIF_TIER", "quick")
    replay = None
    i = 2
    while i < len(argv):
        if argv[i] == "--tier":
            tier = argv[i + 1]; i += 2
        elif argv[i] == "--replay":
            replay = json.load(open(argv[i + 1])); i += 2
        else:
            i += 1
    if tier not in ("quick", "thorough"):
        tier = "quick"
    try:
        seed = int(os.environ.get("VERIF_SEED", "1"))
    except ValueError:
        seed = 1
    return check_property(prop, tier, seed, replay)


if __name__ == "__main__":
    sys.exit(main(sys.argv))
