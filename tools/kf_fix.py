#!/usr/bin/env python3
"""tools/kf_fix.py [--close ID ...] [--rehash OLD=NEW ...] — maintenance of known_findings.json after merges."""
import json, sys
p = "/verif/known_findings.json"
d = json.load(open(p))
args = sys.argv[1:]
mode = None
for a in args:
    if a in ("--close", "--rehash"):
        mode = a; continue
    if mode == "--close":
        d.setdefault("closed_ids", [])
        if a not in d["closed_ids"]:
            d["closed_ids"].append(a)
    elif mode == "--rehash":
        old, new = a.split("=")
        d["fixed"] = [x.replace(f" {old} ", f" {new} ") for x in d.get("fixed", [])]
d["findings"] = [f for f in d["findings"] if f["id"] not in d.get("closed_ids", [])]
json.dump(d, open(p, "w"), indent=1)
print("open:", [f["id"] for f in d["findings"]], "fixed:", len(d.get("fixed", [])))
