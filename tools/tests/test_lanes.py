#!/usr/bin/env python3
"""Self-test of the lane translator (tools/rs2lean.py kind "lanes"): accepted subset and refusals.
Run: python3 tools/tests/test_lanes.py"""
import os, sys
sys.path.insert(0, os.path.join(os.path.dirname(os.path.abspath(__file__)), ".."))
import rs2lean

SRC = r'''
const K: i8 = b'z' as i8;
unsafe fn helper_le(a: __m128i, b: __m128i) -> __m128i { _mm_cmpeq_epi8(_mm_min_epu8(a, b), a) }
unsafe fn ok_nibble(v: __m128i) -> __m128i {
    let hi = _mm_and_si128(_mm_srli_epi16(v, 4), _mm_set1_epi8(0x0F));
    let lo = _mm_and_si128(_mm_set1_epi8(0xF0u8 as i8), _mm_slli_epi16::<4>(v));
    _mm_or_si128(_mm_cmpgt_epi8(hi, _mm_set1_epi8(-1)), _mm_andnot_si128(lo, _mm_adds_epu8(v, _mm_set1_epi8(K))))
}
unsafe fn named_mask(v: __m128i) -> __m128i {
    let low_mask = _mm_set1_epi8(0x0F);
    _mm_and_si128(_mm_srli_epi16(v, 4), low_mask)
}
unsafe fn bad_shift(v: __m128i) -> __m128i { _mm_or_si128(_mm_srli_epi16(v, 4), v) }
unsafe fn bad_mask(v: __m128i) -> __m128i { _mm_and_si128(_mm_srli_epi16(v, 4), _mm_set1_epi8(0x1F)) }
unsafe fn bad_cross(v: __m128i, p: __m128i) -> __m128i { _mm_cmpeq_epi8(_mm_alignr_epi8(v, p, 15), v) }
unsafe fn bad_shuffle(v: __m128i) -> __m128i { _mm_shuffle_epi8(v, v) }
unsafe fn bad_cond(v: __m128i, c: bool) -> __m128i {
    let mut e = _mm_cmpeq_epi8(v, _mm_set1_epi8(1));
    if c { e = _mm_cmpeq_epi8(v, _mm_set1_epi8(2)); }
    e
}
unsafe fn with_helper(v: __m128i, k: u8) -> u32 {
    let m = helper_le(_mm_sub_epi8(v, _mm_set1_epi8(b'a' as i8)), _mm_set1_epi8((b'z' - b'a') as i8));
    let n = _mm_cmpeq_epi8(v, _mm_set1_epi8(k as i8));
    _mm_movemask_epi8(_mm_xor_si128(m, n)) as u32
}
unsafe fn param_not_input(v: __m128i, w: __m128i) -> __m128i { _mm_or_si128(v, w) }
'''


def tr(fn, spec):
    return rs2lean.translate_lanes(SRC, fn, fn, spec)


def refuses(fn, spec, needle):
    try:
        tr(fn, spec)
    except rs2lean.Unsupported as e:
        assert needle in str(e), (fn, str(e))
        return
    raise AssertionError(f"{fn} was translated but must be refused")


def main():
    t = tr("ok_nibble", {"inputs": ["v"], "outputs": ["return"]})
    assert "SV.Lane.srlMasked v 4 0x0F#8" in t and "SV.Lane.sllMasked v 4 0xF0#8" in t, t
    assert "SV.Lane.cmpgt hi 0xFF#8" in t and "SV.Lane.andnot lo (SV.Lane.addsu v 0x7A#8)" in t, t
    t = tr("with_helper", {"inputs": ["v"], "outputs": ["return"]})
    assert "(v : BitVec 8) (k : BitVec 8)" in t and "SV.Lane.minu (v - 0x61#8) 0x19#8" in t and "SV.Lane.cmpeq v k" in t, t
    assert "SV.Lane.srlMasked v 4 0x0F#8" in tr("named_mask", {"inputs": ["v"], "outputs": ["return"]})
    refuses("bad_shift", {"inputs": ["v"], "outputs": ["return"]}, "not immediately masked")
    refuses("bad_mask", {"inputs": ["v"], "outputs": ["return"]}, "neighbouring byte")
    refuses("bad_cross", {"inputs": ["v", "p"], "outputs": ["return"]}, "cross-lane")
    refuses("bad_shuffle", {"inputs": ["v"], "outputs": ["return"]}, "cross-lane")
    refuses("bad_cond", {"inputs": ["v"], "outputs": ["return"]}, "nested block")
    refuses("param_not_input", {"inputs": ["v"], "outputs": ["return"]}, "not a declared input")
    print("lane translator self-test: ok")


if __name__ == "__main__":
    main()
