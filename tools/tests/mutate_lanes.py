#!/usr/bin/env python3
"""Self-test of the "lanes" tie: for every EXTRACT "lanes" entry, change one comparison constant
inside the translated Rust function (in the repo worktree named by VERIF_REPO), regenerate the
property's Generated file, and confirm that the property's `lanes_generated_eq` theorem no longer
builds.  The source file is restored afterwards (also on error).

  VERIF_REPO=/tmp/ws/<id>/repo python3 tools/tests/mutate_lanes.py [Cxx ...]
"""
import os, re, subprocess, sys
ROOT = os.path.dirname(os.path.dirname(os.path.dirname(os.path.abspath(__file__))))
sys.path.insert(0, os.path.join(ROOT, "tools"))
import extract, rs2lean, props as P  # noqa: E402

REPO = os.environ.get("VERIF_REPO", "/repo")
LEAN = os.path.join(ROOT, "lean")


def regen(stem):
    """Regenerate every Generated/*.lean from the (mutated) working tree, exactly as a check does."""
    gen = os.path.join(LEAN, "SuccinctlyVerif", "Generated", stem + ".lean")
    old = open(gen).read() if os.path.exists(gen) else ""
    hb = os.path.join(ROOT, ".build", "target-default", "release", "svharness")
    problems, _changed = extract.run(hb)
    return old, {k: v for k, v in problems.items() if k.startswith(stem + ":lanes")}


def build(stem):
    """Elaborate only `lanes_generated_eq` of Props/<stem>.lean against the freshly regenerated
    Generated/<stem>.lean (the other modules keep their compiled form: a full `lake build` would
    re-prove every theorem downstream of the generated file for each mutation)."""
    r = subprocess.run(["lake", "build", f"SuccinctlyVerif.Generated.{stem}"], cwd=LEAN, capture_output=True, text=True)
    if r.returncode != 0:
        return r.returncode, r.stdout + r.stderr
    src = open(os.path.join(LEAN, "SuccinctlyVerif", "Props", stem + ".lean")).read()
    head = [l for l in src.split("\n") if re.match(r"(import|namespace|open) ", l)]
    i = src.index("theorem lanes_generated_eq")
    i = src.rindex("/--", 0, i)
    scratch = os.path.join(ROOT, "out", f"lanes_selftest_{stem}.lean")
    os.makedirs(os.path.dirname(scratch), exist_ok=True)
    open(scratch, "w").write("\n".join(head) + "\n" + src[i:])
    r = subprocess.run(["lake", "env", "lean", scratch], cwd=LEAN, capture_output=True, text=True)
    return r.returncode, r.stdout + r.stderr


def mutate_fn(text, fn):
    """Change the first comparison constant inside fn: `b'X' as i8`, `0xNNu8 as i8`, a const name's
    value is out of reach, so fall back to swapping the first `set1_epi8(ARG)` argument."""
    src = rs2lean.LaneTranslator.extract_fn_any(text, fn)
    m = re.search(r"set1_epi8\(\s*b'(\\?.)'", src)
    if m:
        ch = m.group(1)
        rep = "Z" if ch != "Z" else "Y"
        new = src[:m.start(1)] + rep + src[m.end(1):]
        return text.replace(src, new, 1), f"b'{ch}' -> b'{rep}'"
    m = re.search(r"set1_epi8\(\s*(0x[0-9A-Fa-f]+)", src)
    if m:
        v = int(m.group(1), 16)
        new = src[:m.start(1)] + hex(v ^ 1) + src[m.end(1):]
        return text.replace(src, new, 1), f"{m.group(1)} -> {hex(v ^ 1)}"
    m = re.search(r"set1_epi8\(\s*(delimiter)\s*\)", src)
    if m:
        # DSV: broadcast the wrong parameter into the delimiter compare
        new = src[:m.start(1)] + "newline" + src[m.end(1):]
        return text.replace(src, new, 1), "set1(delimiter) -> set1(newline)"
    m = re.search(r"(uge|ult)\((\w+), (0x[0-9A-Fa-f]+)\)", src)
    if m:
        v = int(m.group(3), 16)
        new = src[:m.start(3)] + hex(v + 1) + src[m.end(3):]
        return text.replace(src, new, 1), f"{m.group(0)} -> {hex(v + 1)}"
    raise RuntimeError(f"no constant found in {fn}")


def main(stems):
    rc_all = 0
    for stem in stems:
        rc, out = build(stem)
        if rc != 0:
            print(f"{stem}: baseline does not build:\n{out[-1500:]}")
            return 2
        seen = set()
        for lean, rel, fn, lspec in P.EXTRACTS[stem]["lanes"]:
            if (rel, fn) in seen:
                continue
            seen.add((rel, fn))
            path = os.path.join(REPO, rel)
            orig = open(path).read()
            gen_old = None
            try:
                mutated, what = mutate_fn(orig, fn)
                open(path, "w").write(mutated)
                gen_old, problems = regen(stem)
                rc, out = build(stem)
                err = re.findall(r"error: [^\n]*", out)
                verdict = "BROKEN (as required)" if rc != 0 or problems else "STILL BUILDS (tie is not effective!)"
                if rc == 0 and not problems:
                    rc_all = 1
                print(f"{stem} {rel}::{fn}: {what}: obligation {verdict} {('| ' + err[0][:140]) if err else ''} {problems if problems else ''}")
            finally:
                open(path, "w").write(orig)
                if gen_old is not None:
                    open(os.path.join(LEAN, "SuccinctlyVerif", "Generated", stem + ".lean"), "w").write(gen_old)
        rc, out = build(stem)
        print(f"{stem}: restored, baseline builds again: {rc == 0}")
        if rc != 0:
            rc_all = 2
    return rc_all


if __name__ == "__main__":
    sys.exit(main(sys.argv[1:] or [s for s in sorted(P.EXTRACTS) if P.EXTRACTS[s].get("lanes")]))
