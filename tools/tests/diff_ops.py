#!/usr/bin/env python3
"""Count implementation-vs-model disagreements per op for one property and variant (diagnostic used
by the lane-mutation self-test).  usage: diff_ops.py Cxx [features,comma] [ENV=VAL ...]"""
import os, subprocess, sys
ROOT = os.path.dirname(os.path.dirname(os.path.dirname(os.path.abspath(__file__))))
sys.path.insert(0, os.path.join(ROOT, "tools"))
import props as P  # noqa: E402
import run  # noqa: E402

prop = sys.argv[1]
feats = [f for f in (sys.argv[2].split(",") if len(sys.argv) > 2 else []) if f and "=" not in f]
env = dict(a.split("=", 1) for a in sys.argv[2:] if "=" in a)
cfg = P.PROPS[prop]
reqs, impl = run.run_harness_gen(feats, prop, "quick", 1, env or None)
model = run.run_driver(reqs)
canon = cfg.get("canon")
xops = set(cfg.get("xvariant_ops", []))
per, first = {}, {}
for rq, im, mo in zip(reqs, impl, model):
    op = rq.split(" ", 2)[1]
    if op in xops:
        continue
    a, b = (canon(rq, im), canon(rq, mo)) if canon else (im, mo)
    if a != b:
        per[op] = per.get(op, 0) + 1
        first.setdefault(op, (rq[:110], im[:90], mo[:90]))
print(prop, feats, env, "requests", len(reqs), "disagreements per op:", per)
for op, (rq, im, mo) in first.items():
    print(f"  first {op}: {rq}\n      impl={im}\n      model={mo}")
